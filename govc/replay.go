package main

import (
	"strings"
)

// tryReplay attempts to turn a solver model into a Go test run against the real package.
// Implemented per function shape in replay_gen.go; returns ok when the real code fails.
func tryReplay(w *world, o *obligation, dir string, sb *strings.Builder) (string, bool) {
	return genericReplay(w, o, dir, sb)
}
