#!/bin/bash
# usage: confirm_seed.sh <name> <seed-dir> <demo-pkg-dir> <demo-run-regex> [skipfull]
# Confirms a seeded change in a scratch worktree of /repo (outside /repo and /verif):
#   - patch applies and the module builds
#   - the demonstration fails with the patch and passes without it
#   - the existing test suite still passes with the patch (unless skipfull)
# Writes <seed-dir>/confirm.log and prints a one-line verdict.  Removes the worktree.
set -u
export GOFLAGS=-mod=mod GOPROXY=off GOSUMDB=off GOTOOLCHAIN=local
name=$1; seed=$2; pkg=$3; run=$4; skipfull=${5:-}
wt=/tmp/confirm-$name
log=$seed/confirm.log
: > $log
git -C /repo worktree remove --force $wt >/dev/null 2>&1
git -C /repo worktree add -q --detach $wt HEAD || { echo "$name: worktree failed"; exit 2; }
cleanup() { git -C /repo worktree remove --force $wt >/dev/null 2>&1; }
trap cleanup EXIT
cd $wt
git apply $seed/patch.diff >>$log 2>&1 || { echo "$name: PATCH-DOES-NOT-APPLY"; exit 1; }
go build ./... >>$log 2>&1 || { echo "$name: BUILD-FAILS"; exit 1; }
cp $seed/demo_test.go $pkg/zz_seed_demo_test.go
echo "== demo with patch" >>$log
go test -vet=off -count=1 -timeout 120s -run "$run" ./$pkg >>$log 2>&1; with=$?
git apply -R $seed/patch.diff >>$log 2>&1 || { echo "$name: PATCH-DOES-NOT-REVERSE"; exit 1; }
echo "== demo without patch" >>$log
go test -vet=off -count=1 -timeout 120s -run "$run" ./$pkg >>$log 2>&1; without=$?
git apply $seed/patch.diff >>$log 2>&1 || { echo "$name: PATCH-DOES-NOT-REAPPLY"; exit 1; }
rm -f $pkg/zz_seed_demo_test.go
full=skipped
if [ -z "$skipfull" ]; then
  echo "== full suite with patch" >>$log
  go test -vet=off -count=1 -p 6 -timeout 25m ./... 2>&1 | grep -v "no test files" > $seed/fullsuite_confirm.log
  if grep -q "^FAIL\|^--- FAIL\|^panic" $seed/fullsuite_confirm.log; then full=FAILS; else full=passes; fi
fi
echo "$name: demo_with_patch_exit=$with demo_without_patch_exit=$without full_suite=$full" | tee -a $log
