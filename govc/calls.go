package main

import (
	"fmt"
	"go/token"
	"go/types"
	"strings"

	"golang.org/x/tools/go/ssa"
)

func (g *fgen) bindCallResult(x *ssa.Call, rs []val, st *state) {
	sig := x.Call.Signature()
	n := sig.Results().Len()
	switch {
	case n == 0:
	case n == 1:
		if len(rs) == 1 {
			g.vals[x] = rs[0]
		} else {
			g.defineUnknown(x, st)
		}
	default:
		if len(rs) == n {
			g.tuples[x] = rs
		} else {
			var vs []val
			for i := 0; i < n; i++ {
				t := sig.Results().At(i).Type()
				nm := g.fresh("v_"+x.Name()+"_r", g.sortOf(t))
				g.fact("true", g.wf(nm, t, st.alloc, 0))
				vs = append(vs, val{nm, t, g.sortOf(t)})
			}
			g.tuples[x] = vs
		}
	}
}

func (g *fgen) freshResults(sig *types.Signature, name string, st *state) []val {
	var vs []val
	for i := 0; i < sig.Results().Len(); i++ {
		t := sig.Results().At(i).Type()
		nm := g.fresh("r_"+mangle(name), g.sortOf(t))
		g.fact("true", g.wf(nm, t, st.alloc, 0))
		vs = append(vs, val{nm, t, g.sortOf(t)})
	}
	return vs
}

func (g *fgen) call(in ssa.CallInstruction, st *state) []val {
	if _, isB := in.Common().Value.(*ssa.Builtin); isB {
		return g.callInner(in, st)
	}
	g.ginvExempt = g.underConstruction(in)
	defer func() { g.ginvExempt = nil }()
	g.assertGinvs(st, "ginv-call", g.siteLabel(in.Pos(), "call"), in.Pos())
	var before *state
	if len(g.stackLocals) > 0 || len(g.localArrays) > 0 {
		before = st.clone()
	}
	rs := g.callInner(in, st)
	g.lockInterference(in, st)
	if before != nil && len(g.localArrays) > 0 {
		g.restoreLocalArrays(in, before, st)
	}
	if before != nil && len(g.stackLocals) > 0 {
		isClosure := false
		c := in.Common()
		if !c.IsInvoke() {
			callee := c.StaticCallee()
			if callee == nil || callee.Parent() != nil {
				isClosure = true
			}
			for _, a := range c.Args {
				if _, ok := a.Type().Underlying().(*types.Signature); ok {
					isClosure = true // a function value is passed along: it may be one of ours
				}
			}
		}
		g.restoreStackLocals(before, st, isClosure)
	}
	g.assumeGinvs(st)
	return rs
}

func (g *fgen) callInner(in ssa.CallInstruction, st *state) []val {
	c := in.Common()
	pos := in.Pos()
	if c.IsInvoke() {
		recv := g.get(c.Value)
		g.oblige("nilptr", g.siteLabel(pos, "invoke "+c.Method.Name()), fmt.Sprintf("(not (= (i_dt %s) 0))", recv.t), pos)
		var args []val
		for _, a := range c.Args {
			args = append(args, g.get(a))
		}
		pp, k := ifaceMethodKey(c.Method)
		fc := g.w.cs.funcs[pp+"::"+k]
		if fc == nil {
			g.havocAll(st)
			g.assum["uncontracted interface call "+c.Method.FullName()+" (havoc all) in "+g.key] = true
			return g.freshResults(c.Signature(), c.Method.Name(), st)
		}
		return g.applyContract(fc, nil, &recv, args, st, pos, c.Signature())
	}
	switch f := c.Value.(type) {
	case *ssa.Builtin:
		return g.builtin(f, c, st, pos, in)
	}
	callee := c.StaticCallee()
	var args []val
	for _, a := range c.Args {
		args = append(args, g.get(a))
	}
	// interior pointers passed to callees: havoc what they point to afterwards
	var escaping []*loc
	for _, a := range c.Args {
		if l, ok := g.locs[a]; ok {
			escaping = append(escaping, l)
		}
	}
	// copy-in / copy-out: the callee sees the pointee as a stand-alone object at the
	// interior pointer's address (its own heap cells); the enclosing object's cells are
	// copied there before the call and copied back after it.
	type viaPtr struct {
		l  *loc
		pl *loc
	}
	var linked []viaPtr
	whole := map[*loc]bool{} // the pointer denotes the object itself: the callee's frame covers it
	for i, a := range c.Args {
		l, ok := g.locs[a]
		if !ok || len(l.sub) > 0 || l.root == rootGlobal {
			continue
		}
		if _, isArr := l.typ.Underlying().(*types.Array); isArr {
			continue
		}
		if n, isN := l.typ.(*types.Named); isN && n.Obj().Pkg() != nil {
			if pp := n.Obj().Pkg().Path(); pp != modPath && !strings.HasPrefix(pp, modPath+"/") {
				continue // library object (mutex, buffer): opaque to the contracts
			}
		}
		pl := g.ptrLoc(args[i].t, l.typ)
		if pl.root == l.root && pl.rootT == l.rootT && len(pl.path) == len(l.path) && pl.base == l.base {
			whole[l] = true
			continue
		}
		g.store(st, pl, g.load(st, l))
		linked = append(linked, viaPtr{l, pl})
	}
	defer func() {
		done := map[*loc]bool{}
		for _, vp := range linked {
			g.store(st, vp.l, g.load(st, vp.pl))
			done[vp.l] = true
		}
		for _, l := range escaping {
			if done[l] || whole[l] {
				continue
			}
			var keys []string
			if len(l.sub) > 0 {
				keys = []string{heapKey(l.root, l.rootT, l.path)}
			} else {
				g.leafKeysOf(l, l.path, l.typ, &keys)
			}
			for _, k := range keys {
				g.havocKey(st, k)
			}
		}
	}()
	if callee == nil {
		if pf, ok := g.pureFieldCall(c); ok {
			g.assum["calls through "+pf+" are pure (purefield declaration): deterministic in the function value and arguments, no heap effect"] = true
			return []val{g.dynApp(c.Signature(), g.get(c.Value), args)}
		}
		// dynamic call through a function value
		// every real heap cell may change; the ghost ledgers (locks held, sink/store
		// ledgers) are assumed untouched by the callback - listed as an assumption
		g.havocHeap(st)
		g.assum["dynamic call through a function value in "+g.key+": heap havocked, ghost ledgers assumed unchanged by the callback"] = true
		return g.freshResults(c.Signature(), "dyn", st)
	}
	fc := g.w.contractFor(callee)
	var recv *val
	if callee.Signature.Recv() != nil && len(args) > 0 {
		r := args[0]
		recv = &r
		args = args[1:]
		if _, ok := r.typ.Underlying().(*types.Pointer); ok && !(fc != nil && fc.nilRecvOK) {
			g.oblige("nilrecv", g.siteLabel(pos, "call "+callee.Name()), fmt.Sprintf("(not (= %s 0))", r.t), pos)
		}
	}
	if fc != nil {
		if mc, ok := c.Value.(*ssa.MakeClosure); ok {
			g.curClosure = mc
			defer func() { g.curClosure = nil }()
		}
		return g.applyContract(fc, callee, recv, args, st, pos, callee.Signature)
	}
	// no contract: inferred frame
	var ms *modset
	if callee.Blocks == nil && g.w.isLibrary(callee) {
		ms = g.w.libraryFrame(g.w.keygen(), callee, c.Args)
		g.assum["library frame assumed for uncontracted "+callee.String()+" (writes only memory reachable from its arguments)"] = true
	} else {
		ms = g.w.modsetOf(callee)
	}
	g.applyModset(ms, st, callee.String())
	return g.freshResults(callee.Signature, callee.Name(), st)
}

func (g *fgen) applyModset(ms *modset, st *state, who string) {
	if ms.all {
		keep := map[string]string{}
		for _, k := range sortedKeys(ms.preserve) {
			if me, ok := ms.preserveEntries[k]; ok {
				me.register(g, k)
			}
			if _, known := g.heapSort[k]; known {
				keep[k] = g.read(st, k)
			}
		}
		defer func() {
			for k, v := range keep {
				st.heap[k] = v
			}
		}()
		if ms.heapOnly {
			g.havocHeap(st)
			for _, k := range sortedKeys(ms.any) {
				me := ms.any[k]
				if strings.HasPrefix(k, "G_ghost_") {
					me.register(g, k)
					g.havocKey(st, k)
				}
			}
			return
		}
		g.havocAll(st)
		g.assum["call to "+who+" has an unbounded frame (havoc all): "+ms.why] = true
		return
	}
	oldAlloc := st.alloc
	if ms.hasCoarse() {
		// selective epoch: keys in the coarse classes inherit nothing, all others are kept
		prev := st.clone()
		ep := g.newEpoch([]epochPred{{"true", prev}})
		g.epochs[ep].except = ms.coarse
		st.heap = map[string]string{}
		st.epoch = ep
	}
	for _, k := range sortedKeys(ms.any) {
		me := ms.any[k]
		me.register(g, k)
		g.havocKey(st, k)
	}
	for _, k := range sortedKeys(ms.fresh) {
		me := ms.fresh[k]
		if _, dup := ms.any[k]; dup {
			continue
		}
		me.register(g, k)
		g.havocKeyFresh(st, k, oldAlloc)
	}
	if ms.allocs || len(ms.fresh) > 0 {
		na := g.fresh("alloc", "Int")
		g.fact("true", fmt.Sprintf("(>= %s %s)", na, st.alloc))
		st.alloc = na
	}
}

// applyContract: assert requires, havoc modifies, assume ensures.
func (g *fgen) applyContract(fc *funcContract, callee *ssa.Function, recv *val, args []val, st *state, pos token.Pos, sig *types.Signature) []val {
	ckey := shortPkg(fc.pkgPath) + "." + fc.key
	g.usedContracts[ckey] = true
	pkg := g.w.allTPkg[fc.pkgPath]
	nq := new(int)
	*nq = 1000 * (len(g.obls) + 1)
	vars := map[string]val{}
	if recv != nil && fc.recvName != "" {
		vars[fc.recvName] = *recv
	}
	if len(fc.params) != len(args) {
		panic(transErr(fmt.Sprintf("%s: contract has %d params, call has %d args", fc.where, len(fc.params), len(args))))
	}
	for i, p := range fc.params {
		vars[p.name] = args[i]
	}
	pre := st.clone()
	env := &cenv{g: g, st: pre, old: pre, vars: vars, pkg: pkg, nq: nq}
	// a closure's contract names its captured variables: their cells, read in the state
	// the clause is evaluated in
	var capLocal func(s *state) func(string) (val, bool)
	if mc := g.curClosure; mc != nil && callee != nil {
		capLocal = func(s *state) func(string) (val, bool) {
			return func(name string) (val, bool) {
				for i, fv := range callee.FreeVars {
					if fv.Name() == name && i < len(mc.Bindings) {
						p := g.get(mc.Bindings[i])
						et := fv.Type().Underlying().(*types.Pointer).Elem()
						l := g.ptrLoc(p.t, et)
						return val{g.load(s, l), et, g.sortOf(et)}, true
					}
				}
				return val{}, false
			}
		}
		env.local = capLocal(pre)
	}
	for _, c := range fc.requires {
		t, err := env.safeBool(c)
		if err != nil {
			panic(transErr(err.Error()))
		}
		g.oblige("call-pre", g.siteLabel(pos, "call")+"/"+strings.TrimPrefix(c.label, "pre:"), t, pos)
		g.obls[len(g.obls)-1].src = ckey + " requires " + c.src
	}
	for _, c := range fc.panicsIf {
		t, err := env.safeBool(c)
		if err != nil {
			panic(transErr(err.Error()))
		}
		g.oblige("call-nopanic", g.siteLabel(pos, "call")+"/"+strings.TrimPrefix(c.label, "panicsif:"), not(t), pos)
		g.obls[len(g.obls)-1].src = ckey + " panics-if " + c.src
	}
	// frame
	nHavocs := len(g.fullHavocs)
	if fc.hasMod {
		ms := newModset()
		g.w.declMods(g, fc, ms)
		if !ms.all {
			g.applyPrecise(g.preciseLocs(fc, env), ms, st)
		}
		if callee != nil && callee.Blocks != nil && !fc.pure {
			cm := g.w.modsetOf(callee)
			for _, k := range sortedKeys(cm.fresh) {
				v := cm.fresh[k]
				ms.fresh[k] = v
			}
			ms.allocs = true
		} else if !fc.pure {
			ms.allocs = true
		}
		g.applyModset(ms, st, ckey)
	} else if callee != nil && callee.Blocks != nil {
		g.applyModset(g.w.modsetOf(callee), st, ckey)
	} else {
		g.havocAll(st)
		g.assum["contract "+ckey+" has no modifies clause and no body (havoc all)"] = true
	}
	if fc.modIf != nil {
		g.applyModIf(fc, env, pre, st, nHavocs, ckey)
	}
	for _, name := range fc.ghostWrites {
		if k, gv := g.ghostKey(name); gv != nil {
			g.havocKey(st, k)
		}
	}
	// results
	rs := g.freshResults(sig, "c", st)
	if len(fc.results) != len(rs) {
		panic(transErr(fmt.Sprintf("%s: contract declares %d results, callee has %d", fc.where, len(fc.results), len(rs))))
	}
	if fc.pure && len(rs) == 1 && !fc.isIface {
		allArgs := args
		pv := g.pureApp(fc, allArgs)
		g.fact(g.curGuard, fmt.Sprintf("(= %s %s)", rs[0].t, pv.t))
	}
	post := &cenv{g: g, st: st, old: pre, vars: map[string]val{}, pkg: pkg, nq: nq}
	if capLocal != nil {
		post.local = capLocal(st)
	}
	for k, v := range vars {
		post.vars[k] = v
	}
	for i, r := range fc.results {
		post.vars[r.name] = rs[i]
	}
	for _, c := range fc.ensures {
		t, err := post.safeBool(c)
		if err != nil {
			if fc.trusted && (callee == nil || callee.Blocks == nil || g.w.isLibrary(callee)) && strings.Contains(err.Error(), "unknown") {
				// a trusted library clause that names types of a package not loaded for
				// this property: dropping an assumed clause is sound
				g.assum["trusted clause of "+ckey+" not resolvable here and dropped: "+c.src] = true
				continue
			}
			panic(transErr(err.Error()))
		}
		if g.noteQuant(post, c, g.curGuard, !fc.indexInst) > 0 && g.multiVarForall(c) {
			// the contract of the function under verification names witnesses and the
			// clause has been instantiated at them: the multi-variable quantified form
			// itself is not asserted (it only feeds matching loops)
			continue
		}
		g.fact(g.curGuard, t)
	}
	for _, c := range fc.defines {
		t, err := post.safeBool(c)
		if err != nil {
			if fc.trusted && (callee == nil || callee.Blocks == nil || g.w.isLibrary(callee)) {
				// a ghost definition of a trusted (generic) library contract that does
				// not type-check for this instantiation: the ghost stays havocked
				g.assum["ghost definition of "+ckey+" not applicable here and dropped: "+c.src] = true
				continue
			}
			panic(transErr(err.Error()))
		}
		g.fact(g.curGuard, t)
	}
	return rs
}

func (g *fgen) builtin(f *ssa.Builtin, c *ssa.CallCommon, st *state, pos token.Pos, in ssa.CallInstruction) []val {
	var args []val
	for _, a := range c.Args {
		args = append(args, g.get(a))
	}
	one := func(t string, typ types.Type) []val {
		n := g.fresh("b_"+f.Name(), g.sortOf(typ))
		g.fact("true", fmt.Sprintf("(= %s %s)", n, t))
		return []val{{n, typ, g.sortOf(typ)}}
	}
	switch f.Name() {
	case "len":
		switch u := c.Args[0].Type().Underlying().(type) {
		case *types.Slice:
			return one(fmt.Sprintf("(s_len %s)", args[0].t), tInt)
		case *types.Basic:
			return one(fmt.Sprintf("(str.len %s)", args[0].t), tInt)
		case *types.Map:
			_, _, lk := g.mapKeys(u)
			r := one(fmt.Sprintf("(ite (= %s 0) 0 (select %s %s))", args[0].t, g.read(st, lk), args[0].t), tInt)
			g.fact("true", fmt.Sprintf("(<= 0 %s)", r[0].t))
			return r
		case *types.Array:
			return one(fmt.Sprint(u.Len()), tInt)
		case *types.Pointer:
			if a, ok := u.Elem().Underlying().(*types.Array); ok {
				return one(fmt.Sprint(a.Len()), tInt)
			}
		}
	case "cap":
		if _, ok := c.Args[0].Type().Underlying().(*types.Slice); ok {
			return one(fmt.Sprintf("(s_cap %s)", args[0].t), tInt)
		}
	case "min", "max":
		if len(args) == 2 && args[0].sort == "Int" {
			fn := "imin"
			if f.Name() == "max" {
				fn = "imax"
			}
			return one(fmt.Sprintf("(%s %s %s)", fn, args[0].t, args[1].t), c.Args[0].Type())
		}
	case "append":
		return g.appendBuiltin(c, args, st, pos)
	case "copy":
		return g.copyBuiltin(c, args, st)
	case "delete":
		mt := c.Args[0].Type().Underlying().(*types.Map)
		m, k := args[0], args[1]
		hk, _, lk := g.mapKeys(mt)
		h, l := g.read(st, hk), g.read(st, lk)
		nl := g.fresh("H_"+lk, g.heapSort[lk])
		g.fact("true", fmt.Sprintf("(= %s (ite (= %s 0) %s (store %s %s (ite (select (select %s %s) %s) (- (select %s %s) 1) (select %s %s)))))", nl, m.t, l, l, m.t, h, m.t, k.t, l, m.t, l, m.t))
		st.heap[lk] = nl
		nh := g.fresh("H_"+hk, g.heapSort[hk])
		g.fact("true", fmt.Sprintf("(= %s (ite (= %s 0) %s (store %s %s (store (select %s %s) %s false))))", nh, m.t, h, h, m.t, h, m.t, k.t))
		st.heap[hk] = nh
		return nil
	case "print", "println":
		return nil
	case "clear":
		if mt, ok := c.Args[0].Type().Underlying().(*types.Map); ok {
			m := args[0]
			hk, _, lk := g.mapKeys(mt)
			ks := g.sortOf(mt.Key())
			h, l := g.read(st, hk), g.read(st, lk)
			nh := g.fresh("H_"+hk, g.heapSort[hk])
			g.fact("true", fmt.Sprintf("(= %s (store %s %s ((as const (Array %s Bool)) false)))", nh, h, m.t, ks))
			st.heap[hk] = nh
			nl := g.fresh("H_"+lk, g.heapSort[lk])
			g.fact("true", fmt.Sprintf("(= %s (store %s %s 0))", nl, l, m.t))
			st.heap[lk] = nl
			return nil
		}
		if sl, ok := c.Args[0].Type().Underlying().(*types.Slice); ok {
			if _, isS := isStructVal(sl.Elem()); !isS {
				// clear(s): the cells of s become the zero value, every other cell of the
				// backing array keeps its value
				s := args[0]
				k := g.registerElemKey(sl.Elem())
				h := g.read(st, k)
				es := g.sortOf(sl.Elem())
				na := g.fresh("clr_A", fmt.Sprintf("(Array Int %s)", es))
				g.fact("true", fmt.Sprintf("(forall ((i!q Int)) (! (= (select %s i!q) (ite (and (<= (s_off %s) i!q) (< i!q (+ (s_off %s) (s_len %s)))) %s (select (select %s (s_arr %s)) i!q))) :pattern ((select %s i!q))))",
					na, s.t, s.t, s.t, g.zero(sl.Elem()), h, s.t, na))
				nh := g.fresh("H_"+k, g.heapSort[k])
				g.fact("true", fmt.Sprintf("(= %s (ite (= (s_arr %s) 0) %s (store %s (s_arr %s) %s)))", nh, s.t, h, h, s.t, na))
				st.heap[k] = nh
				return nil
			}
		}
	}
	g.unsupported("builtin %s", f.Name())
	g.havocAll(st)
	return g.freshResults(c.Signature(), f.Name(), st)
}

// smallConstLen: if v is `slice t[:]` of `new [k]T` with small k, returns the array alloc and k.
func smallConstLen(v ssa.Value) (int64, bool) {
	sl, ok := v.(*ssa.Slice)
	if !ok || sl.Low != nil || sl.High != nil {
		return 0, false
	}
	al, ok := sl.X.(*ssa.Alloc)
	if !ok {
		return 0, false
	}
	a, ok := al.Type().Underlying().(*types.Pointer).Elem().Underlying().(*types.Array)
	if !ok || a.Len() > 8 {
		return 0, false
	}
	return a.Len(), true
}

func (g *fgen) appendBuiltin(c *ssa.CallCommon, args []val, st *state, pos token.Pos) []val {
	s := args[0]
	stype, ok := c.Args[0].Type().Underlying().(*types.Slice)
	if !ok {
		g.unsupported("append on %s", c.Args[0].Type())
		return g.freshResults(c.Signature(), "append", st)
	}
	et := stype.Elem()
	t := args[1]
	// number of appended elements and accessor for them
	var n string
	srcIsString := t.sort == "String"
	if srcIsString {
		n = fmt.Sprintf("(str.len %s)", t.t)
	} else {
		n = fmt.Sprintf("(s_len %s)", t.t)
	}
	if _, isS := isStructVal(et); isS {
		// struct elements: handle leaf by leaf
		return g.appendGeneric(c, s, t, et, n, st)
	}
	k := g.registerElemKey(et)
	h := g.read(st, k)
	fits := fmt.Sprintf("(<= (+ (s_len %s) %s) (s_cap %s))", s.t, n, s.t)
	fresh := g.allocRef(st)
	rarr := g.fresh("app_arr", "Int")
	g.fact("true", fmt.Sprintf("(= %s (ite (and %s (not (= (s_arr %s) 0))) (s_arr %s) %s))", rarr, fits, s.t, s.t, fresh))
	roff := g.fresh("app_off", "Int")
	g.fact("true", fmt.Sprintf("(= %s (ite (and %s (not (= (s_arr %s) 0))) (s_off %s) 0))", roff, fits, s.t, s.t))
	rcap := g.fresh("app_cap", "Int")
	g.fact("true", fmt.Sprintf("(ite (and %s (not (= (s_arr %s) 0))) (= %s (s_cap %s)) (>= %s (+ (s_len %s) %s)))", fits, s.t, rcap, s.t, rcap, s.t, n))
	g.fact("true", fmt.Sprintf("(<= (+ %s %s) 72057594037927936)", roff, rcap))
	// appending nothing to a nil slice yields nil
	res := g.fresh("app", "Slice")
	g.fact("true", fmt.Sprintf("(= %s (ite (and (= %s 0) (= (s_arr %s) 0)) (mk_slice 0 0 0 0) (mk_slice %s %s (+ (s_len %s) %s) %s)))", res, n, s.t, rarr, roff, s.t, n, rcap))
	// contents
	na := g.fresh("app_A", "(Array Int "+g.sortOf(et)+")")
	oldA := fmt.Sprintf("(select %s (s_arr %s))", h, s.t)
	if cnt, ok := smallConstLen(c.Args[1]); ok && !srcIsString {
		// explicit stores
		cur := fmt.Sprintf("(ite (and %s (not (= (s_arr %s) 0))) %s %s)", fits, s.t, oldA, "app_prefix!")
		_ = cur
		// base array: old array if in place, else a fresh array carrying the prefix
		pre := g.fresh("app_P", "(Array Int "+g.sortOf(et)+")")
		g.emit(fmt.Sprintf("(assert (forall ((i!q Int)) (! (=> (and (<= 0 i!q) (< i!q (s_len %s))) (= (select %s i!q) (select %s (+ (s_off %s) i!q)))) :pattern ((select %s i!q)))))", s.t, pre, oldA, s.t, pre))
		base := fmt.Sprintf("(ite (and %s (not (= (s_arr %s) 0))) %s %s)", fits, s.t, oldA, pre)
		term := base
		for i := int64(0); i < cnt; i++ {
			src := fmt.Sprintf("(select (select %s (s_arr %s)) (+ (s_off %s) %d))", h, t.t, t.t, i)
			term = fmt.Sprintf("(store %s (+ %s (s_len %s) %d) %s)", term, roff, s.t, i, src)
		}
		g.fact("true", fmt.Sprintf("(= %s %s)", na, term))
	} else {
		var srcAt string
		if srcIsString {
			srcAt = fmt.Sprintf("(str.to_code (str.at %s (- i!q (+ %s (s_len %s)))))", t.t, roff, s.t)
		} else {
			srcAt = fmt.Sprintf("(select (select %s (s_arr %s)) (+ (s_off %s) (- i!q (+ %s (s_len %s)))))", h, t.t, t.t, roff, s.t)
		}
		// appended part
		g.emit(fmt.Sprintf("(assert (forall ((i!q Int)) (! (=> (and (<= (+ %s (s_len %s)) i!q) (< i!q (+ %s (s_len %s) %s))) (= (select %s i!q) %s)) :pattern ((select %s i!q)))))",
			roff, s.t, roff, s.t, n, na, srcAt, na))
		// prefix (and, when in place, everything outside the appended window)
		g.emit(fmt.Sprintf("(assert (forall ((i!q Int)) (! (=> (and (<= %s i!q) (< i!q (+ %s (s_len %s)))) (= (select %s i!q) (select %s (+ (s_off %s) (- i!q %s))))) :pattern ((select %s i!q)))))",
			roff, roff, s.t, na, oldA, s.t, roff, na))
		g.emit(fmt.Sprintf("(assert (=> (and %s (not (= (s_arr %s) 0))) (forall ((i!q Int)) (! (=> (or (< i!q (+ %s (s_len %s))) (>= i!q (+ %s (s_len %s) %s))) (= (select %s i!q) (select %s i!q))) :pattern ((select %s i!q))))))",
			fits, s.t, roff, s.t, roff, s.t, n, na, oldA, na))
	}
	nh := g.fresh("H_"+k, g.heapSort[k])
	g.fact("true", fmt.Sprintf("(= %s (ite (= (s_arr %s) 0) %s (store %s %s %s)))", nh, res, h, h, rarr, na))
	st.heap[k] = nh
	return []val{{res, c.Args[0].Type(), "Slice"}}
}

// appendGeneric: shape only (struct elements): contents of the prefix are preserved leaf by leaf.
func (g *fgen) appendGeneric(c *ssa.CallCommon, s, t val, et types.Type, n string, st *state) []val {
	fits := fmt.Sprintf("(<= (+ (s_len %s) %s) (s_cap %s))", s.t, n, s.t)
	fresh := g.allocRef(st)
	inplace := fmt.Sprintf("(and %s (not (= (s_arr %s) 0)))", fits, s.t)
	rarr := g.fresh("app_arr", "Int")
	g.fact("true", fmt.Sprintf("(= %s (ite %s (s_arr %s) %s))", rarr, inplace, s.t, fresh))
	roff := g.fresh("app_off", "Int")
	g.fact("true", fmt.Sprintf("(= %s (ite %s (s_off %s) 0))", roff, inplace, s.t))
	rcap := g.fresh("app_cap", "Int")
	g.fact("true", fmt.Sprintf("(ite %s (= %s (s_cap %s)) (>= %s (+ (s_len %s) %s)))", inplace, rcap, s.t, rcap, s.t, n))
	g.fact("true", fmt.Sprintf("(<= (+ %s %s) 72057594037927936)", roff, rcap))
	res := g.fresh("app", "Slice")
	g.fact("true", fmt.Sprintf("(= %s (ite (and (= %s 0) (= (s_arr %s) 0)) (mk_slice 0 0 0 0) (mk_slice %s %s (+ (s_len %s) %s) %s)))", res, n, s.t, rarr, roff, s.t, n, rcap))
	l := &loc{root: rootElem, rootT: g.elemKeyName(et), typ: et}
	var keys []string
	var leafTs []types.Type
	var collect func(path []int, t types.Type)
	collect = func(path []int, tt types.Type) {
		if ss, ok := isStructVal(tt); ok {
			for i := 0; i < ss.NumFields(); i++ {
				collect(append(append([]int{}, path...), i), ss.Field(i).Type())
			}
			return
		}
		keys = append(keys, g.leafKey(l, path, tt))
		leafTs = append(leafTs, tt)
	}
	collect(nil, et)
	cnt, small := smallConstLen(c.Args[1])
	for i, k := range keys {
		h := g.read(st, k)
		ls := g.sortOf(leafTs[i])
		na := g.fresh("app_A", "(Array Int "+ls+")")
		oldA := fmt.Sprintf("(select %s (s_arr %s))", h, s.t)
		if small {
			pre := g.fresh("app_P", "(Array Int "+ls+")")
			g.emit(fmt.Sprintf("(assert (forall ((i!q Int)) (! (=> (and (<= 0 i!q) (< i!q (s_len %s))) (= (select %s i!q) (select %s (+ (s_off %s) i!q)))) :pattern ((select %s i!q)))))", s.t, pre, oldA, s.t, pre))
			term := fmt.Sprintf("(ite %s %s %s)", inplace, oldA, pre)
			for j := int64(0); j < cnt; j++ {
				src := fmt.Sprintf("(select (select %s (s_arr %s)) (+ (s_off %s) %d))", h, t.t, t.t, j)
				term = fmt.Sprintf("(store %s (+ %s (s_len %s) %d) %s)", term, roff, s.t, j, src)
			}
			g.fact("true", fmt.Sprintf("(= %s %s)", na, term))
		} else {
			srcAt := fmt.Sprintf("(select (select %s (s_arr %s)) (+ (s_off %s) (- i!q (+ %s (s_len %s)))))", h, t.t, t.t, roff, s.t)
			g.emit(fmt.Sprintf("(assert (forall ((i!q Int)) (! (=> (and (<= (+ %s (s_len %s)) i!q) (< i!q (+ %s (s_len %s) %s))) (= (select %s i!q) %s)) :pattern ((select %s i!q)))))",
				roff, s.t, roff, s.t, n, na, srcAt, na))
			g.emit(fmt.Sprintf("(assert (forall ((i!q Int)) (! (=> (and (<= %s i!q) (< i!q (+ %s (s_len %s)))) (= (select %s i!q) (select %s (+ (s_off %s) (- i!q %s))))) :pattern ((select %s i!q)))))",
				roff, roff, s.t, na, oldA, s.t, roff, na))
			g.emit(fmt.Sprintf("(assert (=> %s (forall ((i!q Int)) (! (=> (or (< i!q (+ %s (s_len %s))) (>= i!q (+ %s (s_len %s) %s))) (= (select %s i!q) (select %s i!q))) :pattern ((select %s i!q))))))",
				inplace, roff, s.t, roff, s.t, n, na, oldA, na))
		}
		nh := g.fresh("H_"+k, g.heapSort[k])
		g.fact("true", fmt.Sprintf("(= %s (ite (= (s_arr %s) 0) %s (store %s %s %s)))", nh, res, h, h, rarr, na))
		st.heap[k] = nh
	}
	return []val{{res, c.Args[0].Type(), "Slice"}}
}

func (g *fgen) copyBuiltin(c *ssa.CallCommon, args []val, st *state) []val {
	d, s := args[0], args[1]
	dt, ok := c.Args[0].Type().Underlying().(*types.Slice)
	if !ok {
		g.unsupported("copy to %s", c.Args[0].Type())
		return g.freshResults(c.Signature(), "copy", st)
	}
	et := dt.Elem()
	if _, isS := isStructVal(et); isS {
		g.unsupported("copy of struct slices")
		g.havocAll(st)
		return g.freshResults(c.Signature(), "copy", st)
	}
	k := g.registerElemKey(et)
	h := g.read(st, k)
	var slen, srcAt string
	if s.sort == "String" {
		slen = fmt.Sprintf("(str.len %s)", s.t)
		srcAt = fmt.Sprintf("(str.to_code (str.at %s (- i!q (s_off %s))))", s.t, d.t)
	} else {
		slen = fmt.Sprintf("(s_len %s)", s.t)
		srcAt = fmt.Sprintf("(select (select %s (s_arr %s)) (+ (s_off %s) (- i!q (s_off %s))))", h, s.t, s.t, d.t)
	}
	n := g.fresh("copy_n", "Int")
	g.fact("true", fmt.Sprintf("(= %s (imin (s_len %s) %s))", n, d.t, slen))
	na := g.fresh("copy_A", "(Array Int "+g.sortOf(et)+")")
	oldA := fmt.Sprintf("(select %s (s_arr %s))", h, d.t)
	g.emit(fmt.Sprintf("(assert (forall ((i!q Int)) (! (= (select %s i!q) (ite (and (<= (s_off %s) i!q) (< i!q (+ (s_off %s) %s))) %s (select %s i!q))) :pattern ((select %s i!q)))))",
		na, d.t, d.t, n, srcAt, oldA, na))
	nh := g.fresh("H_"+k, g.heapSort[k])
	g.fact("true", fmt.Sprintf("(= %s (ite (= %s 0) %s (store %s (s_arr %s) %s)))", nh, n, h, h, d.t, na))
	st.heap[k] = nh
	return []val{{n, tInt, "Int"}}
}

// modIfKeys: the heap keys named by the items of a conditional frame.
func (g *fgen) modIfKeys(fc *funcContract) map[string]bool {
	out := map[string]bool{}
	for _, item := range fc.modIf.items {
		keys, err := g.modKeys(fc, item)
		if err != nil {
			panic(transErr(fmt.Sprintf("%s: modifies-if item %s: %v", fc.where, item, err)))
		}
		for _, k := range sortedKeys(keys) {
			me := keys[k]
			me.register(g, k)
			out[k] = true
		}
	}
	return out
}

// applyModIf: the callee's frame was unbounded (the heap has just been havocked); under
// the conditional frame's condition every key but the listed ones keeps its pre-state
// value (epoch inheritance guarded by the condition).
func (g *fgen) applyModIf(fc *funcContract, env *cenv, pre, st *state, nHavocs int, ckey string) {
	if len(g.fullHavocs) == nHavocs {
		return // the unconditional frame was bounded: nothing to refine
	}
	ct, err := env.safeBool(fc.modIf.cond)
	if err != nil {
		if fc.trusted && strings.Contains(err.Error(), "unknown") {
			g.assum["conditional frame of "+ckey+" not resolvable here and ignored"] = true
			return
		}
		panic(transErr(err.Error()))
	}
	except := g.modIfKeys(fc)
	ev := g.fullHavocs[len(g.fullHavocs)-1]
	ev.cond, ev.except, ev.who = ct, except, ckey
	kept := st.heap // keys re-established after the havoc (ghosts kept by havocHeap)
	st.heap = map[string]string{}
	for k, v := range kept {
		st.heap[k] = v
	}
	st.epoch = g.newEpoch([]epochPred{{guard: ct, st: pre}})
	g.epochs[st.epoch].except = func(k string) bool { return except[k] }
}

// pureFieldCall: the callee value is loaded from a struct field declared `purefield`.
func (g *fgen) pureFieldCall(c *ssa.CallCommon) (string, bool) {
	if c.Signature().Results().Len() != 1 {
		return "", false
	}
	u, ok := c.Value.(*ssa.UnOp)
	if !ok || u.Op != token.MUL {
		return "", false
	}
	fa, ok := u.X.(*ssa.FieldAddr)
	if !ok {
		return "", false
	}
	pt, ok := fa.X.Type().Underlying().(*types.Pointer)
	if !ok {
		return "", false
	}
	n, ok := pt.Elem().(*types.Named)
	if !ok || n.Obj().Pkg() == nil {
		return "", false
	}
	st := n.Underlying().(*types.Struct)
	key := n.Obj().Pkg().Path() + "." + n.Obj().Name() + "." + st.Field(fa.Field).Name()
	return n.Obj().Name() + "." + st.Field(fa.Field).Name(), g.w.cs.pureFields[key]
}

// dynApp: the result of a pure call through function value f, as an uninterpreted
// function (one per signature) of f and the arguments.
func (g *fgen) dynApp(sig *types.Signature, f val, args []val) val {
	rt := sig.Results().At(0).Type()
	name := "dynf_" + mangle(types.TypeString(sig, func(p *types.Package) string { return p.Name() }))
	if !g.declared[name] {
		g.declared[name] = true
		ss := []string{"Int"}
		for i := 0; i < sig.Params().Len(); i++ {
			ss = append(ss, g.sortOf(sig.Params().At(i).Type()))
		}
		g.emit(fmt.Sprintf("(declare-fun %s (%s) %s)", name, strings.Join(ss, " "), g.sortOf(rt)))
		// the result is a value of its Go type
		var bs, as []string
		for i, srt := range ss {
			bs = append(bs, fmt.Sprintf("(d!%d %s)", i, srt))
			as = append(as, fmt.Sprintf("d!%d", i))
		}
		app := fmt.Sprintf("(%s %s)", name, strings.Join(as, " "))
		if w := g.wf(app, rt, "", 0); w != "true" {
			g.emit(fmt.Sprintf("(assert (forall (%s) (! %s :pattern (%s))))", strings.Join(bs, " "), w, app))
		}
	}
	ts := []string{f.t}
	for _, a := range args {
		ts = append(ts, a.t)
	}
	return val{fmt.Sprintf("(%s %s)", name, strings.Join(ts, " ")), rt, g.sortOf(rt)}
}
