package main

import (
	"encoding/json"
	"flag"
	"fmt"
	"os"
	"path/filepath"
	"sort"
	"strconv"
	"strings"
	"time"
)

const verifDir = "/verif"

type propSpec struct {
	ID        string   `json:"id"`
	Packages  []string `json:"packages"`
	Undecided []string `json:"undecided"`
	Trusted   []string `json:"trusted_base"`
	Canary    []string `json:"canaries"` // obligations that must NOT be provable (contract-level negations)
}

type ledgerEntry struct {
	Solver string `json:"solver"`
	Ms     int64  `json:"ms"`
}

type ledger struct {
	Property    string                 `json:"property"`
	Obligations map[string]ledgerEntry `json:"obligations"`
	Complete    map[string]bool        `json:"complete_functions"`
	Groups      map[string]bool        `json:"complete_groups"` // fn#kind and fn#post:N groups fully discharged
	Undecided   []string               `json:"undecided_at_baseline"`
}

type knownFinding struct {
	Property   string `json:"property"`
	Obligation string `json:"obligation"`
	What       string `json:"what_fails"`
	Status     string `json:"status"` // finding | fixed
	Commit     string `json:"commit,omitempty"`
}

func loadJSON(path string, v any) error {
	b, err := os.ReadFile(path)
	if err != nil {
		return err
	}
	return json.Unmarshal(b, v)
}

// devRun: a filtered or exploratory run (its evidence goes to out/evidence-dev).
var devRun bool

func main() {
	if len(os.Args) < 2 {
		fmt.Fprintln(os.Stderr, "usage: govc check|baseline|dump|ssa ...")
		os.Exit(2)
	}
	cmd := os.Args[1]
	fs := flag.NewFlagSet(cmd, flag.ExitOnError)
	prop := fs.String("p", "", "property id")
	tier := fs.String("tier", "", "quick|thorough")
	fnFilter := fs.String("f", "", "function filter (substring)")
	verbose := fs.Bool("v", false, "verbose")
	oblFilter := fs.String("o", "", "obligation filter (dump)")
	claimAll := fs.Bool("all", false, "development aid: treat every generated obligation as claimed")
	keep := fs.Bool("keep", false, "baseline: keep existing claims that still discharge, whatever time they took")
	fs.Parse(os.Args[2:])
	if *tier == "" {
		*tier = os.Getenv("VERIF_TIER")
	}
	if *tier == "" {
		*tier = "quick"
	}
	switch cmd {
	case "check", "baseline", "dump":
		claimEverything = *claimAll
		keepClaims = *keep
		noRetry = *claimAll || cmd != "check"
		devRun = *claimAll || *fnFilter != "" || *oblFilter != "" || cmd != "check"
		os.Exit(runCheck(cmd, *prop, *tier, *fnFilter, *oblFilter, *verbose))
	case "selftest":
		os.Exit(runSelftest(*prop, *fnFilter, *verbose))
	case "ssa":
		w, err := loadWorld(fs.Args()[:1], nil)
		if err != nil {
			fmt.Fprintln(os.Stderr, err)
			os.Exit(2)
		}
		for _, sp := range w.spkgs {
			fn := w.findFunc(sp.Pkg.Path(), fs.Arg(1))
			if fn != nil {
				fn.WriteTo(os.Stdout)
			}
		}
	default:
		fmt.Fprintln(os.Stderr, "unknown command", cmd)
		os.Exit(2)
	}
}

var claimEverything bool
var keepClaims bool

type runResult struct {
	funcs   []*funcResult
	obls    []*obligation
	unbound []string
	errs    []string
}

func generate(w *world, prop string, fnFilter string) *runResult {
	rr := &runResult{}
	for _, k := range w.cs.order {
		fc := w.cs.funcs[k]
		if fc.trusted || fc.isIface {
			continue
		}
		tagged := false
		for _, p := range fc.props {
			if p == prop {
				tagged = true
			}
		}
		if !tagged {
			continue
		}
		if fnFilter != "" && !strings.Contains(fc.key, fnFilter) {
			continue
		}
		fn := w.findFunc(fc.pkgPath, fc.key)
		if fn == nil {
			rr.unbound = append(rr.unbound, shortPkg(fc.pkgPath)+"."+fc.key)
			continue
		}
		if !contractMatches(fc, fn) {
			// signature changed under the contract: the contract is stale; report it as
			// unbound (callers of fn no longer use it and check fn's effects directly)
			rr.unbound = append(rr.unbound, shortPkg(fc.pkgPath)+"."+fc.key+" (stale: signature differs from the contract header)")
			continue
		}
		res := w.verifyFunc(fn, fc)
		rr.funcs = append(rr.funcs, res)
		if len(res.errs) > 0 {
			for _, e := range res.errs {
				rr.errs = append(rr.errs, res.fn+": "+e)
			}
			continue
		}
		if len(res.oos) > 0 {
			continue // out of subset: not verified, reported
		}
		rr.obls = append(rr.obls, res.obls...)
	}
	for _, ld := range w.cs.lemmas {
		if ld.isAxiom {
			continue
		}
		tagged := false
		for _, p := range ld.props {
			if p == prop {
				tagged = true
			}
		}
		if !tagged || (fnFilter != "" && !strings.Contains(ld.name, fnFilter)) {
			continue
		}
		o, err := w.lemmaObligation(ld)
		if err != nil {
			rr.errs = append(rr.errs, "lemma "+ld.name+": "+err.Error())
			continue
		}
		rr.obls = append(rr.obls, o)
	}
	return rr
}

func (w *world) lemmaObligation(ld *lemmaDecl) (o *obligation, err error) {
	g := newFgen(w, nil, nil)
	g.pkgPath = ld.pkgPath
	g.key = "lemma"
	defer func() {
		if r := recover(); r != nil {
			if te, ok := r.(transErr); ok {
				err = fmt.Errorf("%s", string(te))
				return
			}
			panic(r)
		}
	}()
	g.declare("alloc0", "Int")
	g.entry = &state{heap: map[string]string{}, alloc: "alloc0"}
	nq := new(int)
	env := &cenv{g: g, st: g.entry, old: g.entry, vars: map[string]val{}, pkg: w.allTPkg[ld.pkgPath], nq: nq}
	t, err := env.safeBool(ld.body)
	if err != nil {
		return nil, err
	}
	o = &obligation{name: "lemma:" + shortPkg(ld.pkgPath) + "." + ld.name, fn: "lemma:" + ld.name, kind: "lemma", goal: t, guard: "true", nlines: len(g.lines), gen: g, src: ld.body.src}
	return o, nil
}

func runCheck(cmd, prop, tier, fnFilter, oblFilter string, verbose bool) int {
	t0 := time.Now()
	if prop == "" {
		fmt.Fprintln(os.Stderr, "-p required")
		return 2
	}
	seed := 0
	if s := os.Getenv("VERIF_SEED"); s != "" {
		seed, _ = strconv.Atoi(s)
	}
	var ps propSpec
	if err := loadJSON(filepath.Join(verifDir, "props", prop+".json"), &ps); err != nil {
		fmt.Fprintln(os.Stderr, "props:", err)
		return 2
	}
	w, err := loadWorld(ps.Packages, nil)
	if err != nil {
		fmt.Fprintln(os.Stderr, "load:", err)
		return 2
	}
	if err := w.loadContracts(filepath.Join(verifDir, "contracts", "trusted")); err != nil {
		fmt.Fprintln(os.Stderr, "contracts:", err)
		return 2
	}
	tLoad := time.Since(t0)
	rr := generate(w, prop, fnFilter)
	if len(rr.errs) > 0 {
		for _, e := range rr.errs {
			fmt.Fprintln(os.Stderr, "CONTRACT-ERROR:", e)
		}
		return 2
	}
	if cmd == "dump" {
		for _, o := range rr.obls {
			if oblFilter == "" || strings.Contains(o.name, oblFilter) {
				fmt.Printf(";;;; %s\n%s\n", o.name, o.script())
			}
		}
		return 0
	}
	timeout := 45
	all := false
	if tier == "thorough" {
		timeout = 120
		all = true
	}
	outDir := filepath.Join(verifDir, "out", "smt", prop)
	os.RemoveAll(outDir)
	toSolve := rr.obls
	if cmd == "check" && tier != "quick" && !claimEverything {
		// thorough tier: everything is solved, but only claimed obligations get the
		// second attempt (an unclaimed one that stays undecided is no alarm)
		var lg ledger
		if loadJSON(filepath.Join(verifDir, "baseline", prop+".json"), &lg) == nil {
			for _, o := range rr.obls {
				o.noRetry = !lg.isClaimed(o)
			}
		}
	}
	if cmd == "check" && tier == "quick" && !claimEverything {
		// quick tier: only the claimed obligations (and the vacuity covers) are run;
		// obligations never claimed are reported as not-run
		var lg ledger
		if loadJSON(filepath.Join(verifDir, "baseline", prop+".json"), &lg) == nil {
			toSolve = nil
			known := loadKnown(prop)
			for _, o := range rr.obls {
				_, isKnown := lookupKnown(known, o.name)
				o.quickOnly = isKnown
				if o.expect == "sat" || lg.isClaimed(o) || isKnown {
					toSolve = append(toSolve, o)
				} else {
					o.status = "not-run"
				}
			}
		}
	}
	solveAll(toSolve, outDir, timeout, all)

	if cmd == "baseline" {
		return writeBaseline(prop, rr, verbose)
	}
	return report(prop, tier, seed, &ps, w, rr, t0, tLoad, verbose)
}

func oblOK(o *obligation) bool {
	if o.expect == "sat" {
		return o.status == "sat" || o.status == "unknown" || o.status == "timeout"
	}
	return o.status == "unsat"
}

const claimMs = 4000

// groupKey: obligations are also claimed by group, so that an edit which changes the
// source text an obligation is named after (a different return expression, a different
// index expression) is still checked when the whole group was discharged at baseline.
// Groups: fn#post:N (all return sites of one ensures clause), fn#<kind> otherwise.
func groupKey(o *obligation) string {
	name := o.name
	i := strings.Index(name, "#")
	if i < 0 {
		return name
	}
	rest := name[i+1:]
	if strings.HasPrefix(rest, "post:") {
		if j := strings.Index(rest, "@"); j >= 0 {
			rest = rest[:j]
		}
		return name[:i+1] + rest
	}
	return name[:i+1] + o.kind
}

// isClaimed decides whether an obligation generated now belongs to the claimed set.
func (lg *ledger) isClaimed(o *obligation) bool {
	if _, ok := lg.Obligations[o.name]; ok {
		return true
	}
	return lg.Complete[o.fn] || lg.Groups[groupKey(o)]
}

func writeBaseline(prop string, rr *runResult, verbose bool) int {
	lg := ledger{Property: prop, Obligations: map[string]ledgerEntry{}, Complete: map[string]bool{}, Groups: map[string]bool{}}
	// -keep: an obligation claimed by the existing ledger stays claimed when it still
	// discharges, however long it took this time (for re-taking a ledger while the
	// machine is busy); without it only obligations discharged within claimMs are claimed
	var old ledger
	if keepClaims {
		loadJSON(filepath.Join(verifDir, "baseline", prop+".json"), &old)
	}
	perFn := map[string][2]int{}
	perGroup := map[string][2]int{}
	for _, o := range rr.obls {
		if o.expect == "sat" {
			if o.status == "unsat" {
				fmt.Printf("VACUOUS %s (cover is unsat)\n", o.name)
			}
			continue
		}
		c := perFn[o.fn]
		c[0]++
		gk := groupKey(o)
		gc := perGroup[gk]
		gc[0]++
		_, was := old.Obligations[o.name]
		if o.status == "unsat" && (o.ms <= claimMs || (keepClaims && was)) {
			lg.Obligations[o.name] = ledgerEntry{o.solver, o.ms}
			c[1]++
			gc[1]++
		} else {
			lg.Undecided = append(lg.Undecided, fmt.Sprintf("%s [%s %dms] %s", o.name, o.status, o.ms, o.src))
		}
		perFn[o.fn] = c
		perGroup[gk] = gc
	}
	for fn, c := range perFn {
		if c[0] == c[1] {
			lg.Complete[fn] = true
		}
	}
	for gk, c := range perGroup {
		if c[0] == c[1] {
			lg.Groups[gk] = true
		}
	}
	sort.Strings(lg.Undecided)
	for _, f := range rr.funcs {
		if len(f.oos) > 0 {
			fmt.Printf("OUT-OF-SUBSET %s: %s\n", f.fn, strings.Join(f.oos, "; "))
		}
		if verbose {
			for _, a := range f.assum {
				fmt.Printf("ASSUME %s: %s\n", f.fn, a)
			}
		}
	}
	for _, u := range rr.unbound {
		fmt.Printf("UNBOUND %s\n", u)
	}
	for _, u := range lg.Undecided {
		fmt.Println("UNDECIDED", u)
	}
	b, _ := json.MarshalIndent(lg, "", " ")
	os.MkdirAll(filepath.Join(verifDir, "baseline"), 0o755)
	if err := os.WriteFile(filepath.Join(verifDir, "baseline", prop+".json"), append(b, '\n'), 0o644); err != nil {
		fmt.Fprintln(os.Stderr, err)
		return 2
	}
	fmt.Printf("baseline %s: %d claimed, %d undecided, %d complete functions\n", prop, len(lg.Obligations), len(lg.Undecided), len(lg.Complete))
	return 0
}
