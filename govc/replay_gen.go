package main

// Replay: model -> Go test -> `go test -overlay` against the real package.
//
// Drivers are Go test templates under /verif/replay/<pkg>.<func>.go.tmpl with
// placeholders {{name}} for the function's parameters (by contract name), filled
// with Go literals reconstructed from the solver model.

import (
	"context"
	"encoding/json"
	"fmt"
	"go/types"
	"os"
	"os/exec"
	"path/filepath"
	"regexp"
	"strconv"
	"strings"
	"time"
)

// ---- s-expressions ----

type sexp struct {
	atom string
	list []*sexp
	isL  bool
}

func parseSexps(s string) []*sexp {
	var out []*sexp
	i := 0
	var parse func() *sexp
	skip := func() {
		for i < len(s) && (s[i] == ' ' || s[i] == '\n' || s[i] == '\t' || s[i] == '\r') {
			i++
		}
	}
	parse = func() *sexp {
		skip()
		if i >= len(s) {
			return nil
		}
		if s[i] == '(' {
			i++
			n := &sexp{isL: true}
			for {
				skip()
				if i >= len(s) {
					return n
				}
				if s[i] == ')' {
					i++
					return n
				}
				c := parse()
				if c == nil {
					return n
				}
				n.list = append(n.list, c)
			}
		}
		if s[i] == '"' {
			j := i + 1
			for j < len(s) {
				if s[j] == '"' {
					if j+1 < len(s) && s[j+1] == '"' {
						j += 2
						continue
					}
					break
				}
				j++
			}
			a := s[i : j+1]
			i = j + 1
			return &sexp{atom: a}
		}
		j := i
		for j < len(s) && !strings.ContainsRune(" \n\t\r()", rune(s[j])) {
			j++
		}
		a := s[i:j]
		i = j
		return &sexp{atom: a}
	}
	for {
		skip()
		if i >= len(s) {
			break
		}
		if s[i] == ')' {
			i++
			continue
		}
		x := parse()
		if x == nil {
			break
		}
		out = append(out, x)
	}
	return out
}

func (x *sexp) String() string {
	if !x.isL {
		return x.atom
	}
	var ps []string
	for _, c := range x.list {
		ps = append(ps, c.String())
	}
	return "(" + strings.Join(ps, " ") + ")"
}

func sexpInt(x *sexp) (int64, bool) {
	if !x.isL {
		v, err := strconv.ParseInt(x.atom, 10, 64)
		if err != nil {
			// may exceed int64 (uint64 values)
			u, err2 := strconv.ParseUint(x.atom, 10, 64)
			if err2 == nil {
				return int64(u), true
			}
			return 0, false
		}
		return v, true
	}
	if len(x.list) == 2 && x.list[0].atom == "-" {
		v, ok := sexpInt(x.list[1])
		return -v, ok
	}
	return 0, false
}

var reUEsc = regexp.MustCompile(`\\u\{([0-9a-fA-F]+)\}|\\x([0-9a-fA-F]{2})`)

func smtStringToGo(a string) string {
	if len(a) < 2 {
		return ""
	}
	a = a[1 : len(a)-1]
	a = strings.ReplaceAll(a, `""`, `"`)
	a = reUEsc.ReplaceAllStringFunc(a, func(m string) string {
		sm := reUEsc.FindStringSubmatch(m)
		h := sm[1]
		if h == "" {
			h = sm[2]
		}
		v, _ := strconv.ParseUint(h, 16, 32)
		if v < 256 {
			return string([]byte{byte(v)})
		}
		return string(rune(v))
	})
	return a
}

// getValues re-runs the query asking for the values of terms.
func getValues(o *obligation, terms []string, dir string) (map[string]*sexp, bool) {
	script := o.script()
	script += "(get-value (" + strings.Join(terms, " ") + "))\n"
	file := filepath.Join(dir, sanitize(o.name)+".values.smt2")
	os.WriteFile(file, []byte(script), 0o644)
	order := []solverSpec{}
	for _, sp := range solvers {
		if sp.name == o.solver {
			order = append(order, sp)
		}
	}
	for _, sp := range solvers {
		if sp.name != o.solver {
			order = append(order, sp)
		}
	}
	for _, sp := range order {
		r := runOne(context.Background(), sp, file, 30)
		if r.status != "sat" {
			continue
		}
		rest := r.output[strings.Index(r.output, "sat")+3:]
		xs := parseSexps(rest)
		if len(xs) == 0 || !xs[0].isL {
			continue
		}
		out := map[string]*sexp{}
		for i, pr := range xs[0].list {
			if pr.isL && len(pr.list) == 2 && i < len(terms) {
				out[terms[i]] = pr.list[1]
			}
		}
		if len(out) == len(terms) {
			return out, true
		}
	}
	return nil, false
}

// goLiteral reconstructs a Go literal for a parameter from the model.
func goLiteral(o *obligation, v val, dir string) (string, bool) {
	g := o.gen
	switch u := v.typ.Underlying().(type) {
	case *types.Basic:
		vals, ok := getValues(o, []string{v.t}, dir)
		if !ok {
			return "", false
		}
		x := vals[v.t]
		switch {
		case u.Info()&types.IsString != 0:
			return strconv.Quote(smtStringToGo(x.atom)), true
		case u.Info()&types.IsBoolean != 0:
			return x.atom, true
		case u.Info()&types.IsInteger != 0:
			n, ok := sexpInt(x)
			if !ok {
				return "", false
			}
			if ii, _ := intInfoOf(v.typ); !ii.signed {
				return fmt.Sprintf("%s(%d)", types.TypeString(v.typ, nil), uint64(n)), true
			}
			return fmt.Sprintf("%s(%d)", types.TypeString(v.typ, nil), n), true
		}
	case *types.Slice:
		eb, ok := u.Elem().Underlying().(*types.Basic)
		if !ok || eb.Info()&types.IsInteger == 0 {
			return "", false
		}
		lt := fmt.Sprintf("(s_len %s)", v.t)
		at := fmt.Sprintf("(s_arr %s)", v.t)
		ct := fmt.Sprintf("(s_cap %s)", v.t)
		vals, ok := getValues(o, []string{lt, at, ct}, dir)
		if !ok {
			return "", false
		}
		n, _ := sexpInt(vals[lt])
		arr, _ := sexpInt(vals[at])
		cp, _ := sexpInt(vals[ct])
		if arr == 0 {
			return "nil", true
		}
		if n > 4096 || cp > 1<<20 {
			return "", false
		}
		k := g.registerElemKey(u.Elem())
		h := g.read(g.entry, k)
		var terms []string
		for i := int64(0); i < n; i++ {
			terms = append(terms, fmt.Sprintf("(select (select %s (s_arr %s)) (+ (s_off %s) %d))", h, v.t, v.t, i))
		}
		var elems []string
		if n > 0 {
			ev, ok := getValues(o, terms, dir)
			if !ok {
				return "", false
			}
			for _, t := range terms {
				x, _ := sexpInt(ev[t])
				elems = append(elems, fmt.Sprint(x))
			}
		}
		tn := types.TypeString(u.Elem(), nil)
		lit := fmt.Sprintf("append(make([]%s, 0, %d), []%s{%s}...)", tn, cp, tn, strings.Join(elems, ", "))
		return lit, true
	}
	return "", false
}

var rePlaceholder = regexp.MustCompile(`\{\{([A-Za-z_][A-Za-z0-9_]*)\}\}`)

func genericReplay(w *world, o *obligation, dir string, sb *strings.Builder) (string, bool) {
	g := o.gen
	if g == nil || g.fn == nil {
		return "", false
	}
	tmplPath := filepath.Join(verifDir, "replay", o.fn+".go.tmpl")
	tb, err := os.ReadFile(tmplPath)
	if err != nil {
		fmt.Fprintf(sb, "\nreplay: no driver template %s\n", tmplPath)
		return "", false
	}
	tmpl := string(tb)
	failed := false
	body := rePlaceholder.ReplaceAllStringFunc(tmpl, func(m string) string {
		name := rePlaceholder.FindStringSubmatch(m)[1]
		if name == "obligation" {
			return strconv.Quote(o.name)
		}
		v, ok := g.params[name]
		if !ok {
			failed = true
			return m
		}
		lit, ok := goLiteral(o, v, dir)
		if !ok {
			failed = true
			return m
		}
		return lit
	})
	if failed {
		fmt.Fprintf(sb, "\nreplay: could not reconstruct all driver inputs from the model\n")
		return "", false
	}
	testFile := filepath.Join(dir, sanitize(o.name)+"_test.go")
	os.WriteFile(testFile, []byte(body), 0o644)
	pkgDir := filepath.Join(repoDir, strings.TrimPrefix(relPkg(g.pkgPath), "./"))
	target := filepath.Join(pkgDir, "zz_verif_replay_test.go")
	ov := map[string]any{"Replace": map[string]string{target: testFile}}
	ovb, _ := json.Marshal(ov)
	ovFile := filepath.Join(dir, sanitize(o.name)+".overlay.json")
	os.WriteFile(ovFile, ovb, 0o644)
	ctx, cancel := context.WithTimeout(context.Background(), 180*time.Second)
	defer cancel()
	cmd := exec.CommandContext(ctx, "go", "test", "-overlay", ovFile, "-tags", "verif", "-vet=off", "-count=1", "-timeout", "60s", "-run", "TestVerifReplay", relPkg(g.pkgPath))
	cmd.Dir = repoDir
	cmd.Env = append(os.Environ(), "GOFLAGS=-mod=mod", "GOPROXY=off", "GOSUMDB=off", "GOTOOLCHAIN=local")
	out, err := cmd.CombinedOutput()
	fmt.Fprintf(sb, "\nreplay test: %s\nreplay command: (cd %s && go test -overlay %s -tags verif -vet=off -count=1 -timeout 60s -run TestVerifReplay %s)\nreplay output:\n%s\n", testFile, repoDir, ovFile, relPkg(g.pkgPath), trunc(string(out), 6000))
	if err != nil && strings.Contains(string(out), "--- FAIL") {
		return testFile, true
	}
	if err != nil && (strings.Contains(string(out), "panic:") && strings.Contains(string(out), "FAIL")) {
		return testFile, true
	}
	return "", false
}
