#!/bin/bash
# usage: try_seed.sh <seed-dir> <property-id>   -- applies the seeded patch to /repo,
# runs the property's quick check, and reverses the patch (git apply -R: uncommitted
# work in /repo is not touched).
set -u
seed=$1; prop=$2
cd /verif
git -C /repo apply $seed/patch.diff || { echo "patch does not apply"; exit 2; }
cp evidence/$prop.json /tmp/evidence.$prop.keep 2>/dev/null
./check.sh $prop quick 2>&1 | cut -c1-300 | grep -v "^KNOWN" | tail -6
git -C /repo apply -R $seed/patch.diff
# the evidence of the run on the changed tree is not the record of the check
cp /tmp/evidence.$prop.keep evidence/$prop.json 2>/dev/null; rm -f /tmp/evidence.$prop.keep
