#!/usr/bin/env python3
"""Regenerate /verif/MANIFEST.json from /verif/props/*.json + /verif/manifest_meta.json."""
import json, os, subprocess, glob

V = "/verif"
meta = json.load(open(f"{V}/manifest_meta.json"))
props = [json.loads(l) for l in open(f"{V}/properties.jsonl")]
ids = [p["id"] for p in props]
claimed = sorted(os.path.basename(p)[:-5] for p in glob.glob(f"{V}/baseline/*.json"))

commits = subprocess.run(["git", "-C", "/repo", "log", "--format=%H %s", "d183933e2..HEAD"],
                         capture_output=True, text=True).stdout.strip().splitlines()
hook_commits = [c.split()[0] for c in commits if c.split(" ", 1)[1].startswith("verif:")]

checks = []
for pid in claimed:
    m = meta["checks"].get(pid, {})
    checks.append({
        "property_id": pid,
        "quick_cmd": f"./check.sh {pid} quick",
        "thorough_cmd": f"./check.sh {pid} thorough",
        "evidence_file": f"evidence/{pid}.json",
        "engine": "govc",
        "level_claimed": {
            "category": "proof",
            "text": m.get("text", ""),
            "design_ref": m.get("design_ref", "DESIGN.md §4 " + pid),
        },
        "level_note": m.get("note", ""),
        "technique": m.get("technique", "contract-based deductive verification: WP verification conditions over go/ssa of the real functions, discharged by z3/cvc5"),
    })

na = []
for pid in ids:
    if pid not in claimed:
        na.append({"property_id": pid, "reason": meta["not_applicable"].get(pid, "not yet under contract; no obligations are claimed for this property")})

man = {
    "version": 1,
    "setup_cmd": "./setup.sh",
    "hooks": {
        "guard": "verif",
        "enable": "go build/test -tags verif (contract files verif_contracts.go are comment-only and carry //go:build verif)",
        "baseline_off_cmd": meta["baseline_off_cmd"],
        "source_commits": hook_commits,
        "add_only": True,
    },
    "engines": [{
        "name": "govc",
        "path": "govc/",
        "serves_properties": claimed,
        "kind_free_text": "self-written deductive verifier for Go: contracts (requires/ensures/invariant/modifies, ghost state, spec functions, lemmas) in //@ comment files next to the code; weakest-precondition VCs generated from go/ssa of the current working tree; one SMT query per obligation raced on z3 4.8, z3 5.1, cvc5; counterexamples replayed with go test -overlay",
    }],
    "checks": checks,
    "not_applicable": na,
    "notes": meta.get("notes", ""),
}
json.dump(man, open(f"{V}/MANIFEST.json", "w"), indent=1)
print("claimed:", claimed, "not applicable:", [x["property_id"] for x in na])
