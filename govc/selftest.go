package main

// Self-test corpus: /verif/selftest/<prop>/*.json, each a source mutation applied as
// an in-memory overlay (nothing is written to /repo):
//
//	{"file": "zio/zngio/writer.go", "old": "return err", "new": "return nil", "nth": 1,
//	 "expect": "fail", "obligation": "flush#post", "why": "..."}
//
// expect=fail: the mutated tree must fail at least one claimed obligation (whose name
// contains "obligation" when given).  expect=pass: a behaviour-preserving edit that must
// not fail any claimed obligation.

import (
	"encoding/json"
	"fmt"
	"os"
	"path/filepath"
	"sort"
	"strings"
)

type mutation struct {
	File       string `json:"file"`
	Old        string `json:"old"`
	New        string `json:"new"`
	Nth        int    `json:"nth"`
	Expect     string `json:"expect"`
	Obligation string `json:"obligation"`
	Why        string `json:"why"`
}

func runSelftest(prop string, filter string, verbose bool) int {
	var ps propSpec
	if err := loadJSON(filepath.Join(verifDir, "props", prop+".json"), &ps); err != nil {
		fmt.Fprintln(os.Stderr, "props:", err)
		return 2
	}
	var lg ledger
	if err := loadJSON(filepath.Join(verifDir, "baseline", prop+".json"), &lg); err != nil {
		fmt.Fprintln(os.Stderr, "ledger:", err)
		return 2
	}
	files, _ := filepath.Glob(filepath.Join(verifDir, "selftest", prop, "*.json"))
	sort.Strings(files)
	bad := 0
	for _, f := range files {
		if filter != "" && !strings.Contains(f, filter) {
			continue
		}
		var m mutation
		if err := loadJSON(f, &m); err != nil {
			fmt.Printf("%-40s ERROR %v\n", filepath.Base(f), err)
			bad++
			continue
		}
		abs := filepath.Join(repoDir, m.File)
		src, err := os.ReadFile(abs)
		if err != nil {
			fmt.Printf("%-40s ERROR %v\n", filepath.Base(f), err)
			bad++
			continue
		}
		s := string(src)
		n := m.Nth
		if n == 0 {
			n = 1
		}
		idx := -1
		from := 0
		for k := 0; k < n; k++ {
			j := strings.Index(s[from:], m.Old)
			if j < 0 {
				idx = -1
				break
			}
			idx = from + j
			from = idx + len(m.Old)
		}
		if idx < 0 {
			fmt.Printf("%-40s STALE (pattern not found in %s)\n", filepath.Base(f), m.File)
			bad++
			continue
		}
		mut := s[:idx] + m.New + s[idx+len(m.Old):]
		w, err := loadWorld(ps.Packages, map[string][]byte{abs: []byte(mut)})
		if err != nil {
			fmt.Printf("%-40s ERROR load: %v\n", filepath.Base(f), err)
			bad++
			continue
		}
		if err := w.loadContracts(filepath.Join(verifDir, "contracts", "trusted")); err != nil {
			fmt.Printf("%-40s ERROR contracts: %v\n", filepath.Base(f), err)
			bad++
			continue
		}
		rr := generate(w, prop, "")
		if len(rr.errs) > 0 {
			fmt.Printf("%-40s ERROR %s\n", filepath.Base(f), rr.errs[0])
			bad++
			continue
		}
		outDir := filepath.Join(verifDir, "out", "selftest", prop, strings.TrimSuffix(filepath.Base(f), ".json"))
		os.RemoveAll(outDir)
		var toSolve []*obligation
		for _, o := range rr.obls {
			if o.expect != "sat" && lg.isClaimed(o) {
				toSolve = append(toSolve, o)
			}
		}
		solveAll(toSolve, outDir, 20, false)
		var failed []string
		for _, o := range rr.obls {
			if o.expect == "sat" {
				continue
			}
			if lg.isClaimed(o) && o.status != "unsat" {
				failed = append(failed, fmt.Sprintf("%s[%s]", o.name, o.status))
			}
		}
		for _, fr := range rr.funcs {
			if len(fr.oos) > 0 && lg.Complete[fr.fn] {
				failed = append(failed, fr.fn+"[out-of-subset]")
			}
		}
		ok := false
		switch m.Expect {
		case "fail":
			for _, fl := range failed {
				if m.Obligation == "" || strings.Contains(fl, m.Obligation) {
					ok = true
				}
			}
		case "pass":
			ok = len(failed) == 0
		}
		verdict := "OK  "
		if !ok {
			verdict = "MISS"
			if m.Expect == "pass" {
				verdict = "FALSE-ALARM"
			}
			bad++
		}
		fmt.Printf("%-44s %s expect=%s failed=%d %s\n", filepath.Base(f), verdict, m.Expect, len(failed), trunc(strings.Join(failed, " "), 300))
		os.RemoveAll(outDir)
	}
	if bad > 0 {
		fmt.Printf("selftest %s: %d problem(s)\n", prop, bad)
		return 1
	}
	fmt.Printf("selftest %s: all %d mutations behaved as expected\n", prop, len(files))
	return 0
}

func writeMutation(path string, m mutation) error {
	b, _ := json.MarshalIndent(m, "", " ")
	return os.WriteFile(path, b, 0o644)
}
