#!/usr/bin/env python3
"""Assemble /verif/DESIGN.md from doc/DESIGN.head.md, generated sections 4-7, doc/DESIGN.tail.md."""
import json, glob, os, subprocess
V = "/verif"
meta = json.load(open(f"{V}/manifest_meta.json"))
props = {}
for l in open(f"{V}/properties.jsonl"):
    p = json.loads(l); props[p["id"]] = p
out = [open(f"{V}/doc/DESIGN.head.md").read()]
out.append("\n## 4. Per property\n\nFor each claimed property: what is decided, what is not, the functions under contract, the size of the ledger, and the self-test mutations.  Levels: every claimed obligation is an unbounded deductive proof; \"kernel\" means the check decides the named mechanism, not the end-to-end statement.\n")
for pid in sorted(props):
    title = props[pid]["title"]
    if pid in meta["checks"]:
        c = meta["checks"][pid]
        b = json.load(open(f"{V}/baseline/{pid}.json"))
        fns = sorted({o.split("#")[0] for o in b["obligations"]})
        st = sorted(glob.glob(f"{V}/selftest/{pid}/*.json"))
        nfail = sum(1 for f in st if json.load(open(f)).get("expect") == "fail")
        out.append(f"\n### {pid} — {title}\n")
        out.append(f"**Decided.** {c['text']}\n")
        out.append(f"**Not decided / assumed.** {c['note']}\n")
        out.append(f"**Under contract** ({len(fns)} functions, {len(b['obligations'])} claimed obligations, {len(b.get('complete_functions') or [])} functions with every obligation discharged): " + ", ".join(f"`{f}`" for f in fns) + "\n")
        if st:
            out.append(f"**Self-test.** {len(st)} mutations of the real source in `selftest/{pid}/` ({nfail} must fail, {len(st)-nfail} must pass); run with `bin/govc selftest -p {pid}`.\n")
    else:
        out.append(f"\n### {pid} — {title} — **not applicable**\n")
        out.append(meta["not_applicable"].get(pid, "") + "\n")
out.append("\n## 5. Not applicable\n")
for pid, why in sorted(meta["not_applicable"].items()):
    out.append(f"* **{pid}** ({props[pid]['title']}): {why}\n")
out.append("\n## 6. Genuine defects found by failed obligations\n\nEach has an obligation that fails (or cannot be discharged) on the pinned code - most were first seen that way; several were first noticed by reading the code on the first day (and kept as must-fail canaries until a contract reported them) or by seed-writing agents exploring the unchanged tree, as described below the table - was replayed on the real code with the driver in `replay/`, and then either repaired by one minimal `fix:` commit in /repo (the obligation discharges afterwards, and a self-test mutation that re-introduces the defect must fail) or recorded as an open finding.  The unedited test suite passes with all fixes (40 packages, tag off).\n\n| property | obligation | status | what failed |\n|---|---|---|---|\n")
for k in json.load(open(f"{V}/known_findings.json")):
    st = k["status"] + (" " + k.get("commit", "") if k["status"] == "fixed" else "")
    out.append(f"| {k['property']} | `{k['obligation']}` | {st} | {k['what_fails']} |\n")
out.append("\nThe open finding (C06): `expr.compareNumbers` compares an integer with a float after rounding the integer to float64, so the order is not transitive near 2^53.  The exact-order postcondition at the int/float return sites is undischarged and listed in `known_findings.json`; the check prints `KNOWN-FINDING:` for it and exits 0.  It is not repaired because the repair changes query results for mixed int/float keys and is a design decision for the maintainers (an exact comparison is possible but slower).\n")
out.append("\nThe open finding (C09): `count() by x` panics in the vector runtime when x is not a string column: the planner (`optimizer.IsCountByString`) routes every `count() by <top-level field>` to the string-only kernel, whose `update` ends in `panic(\"UNKNOWN %T\")`.  The panic site is an obligation of the contract of `CountByString.update`, listed in `known_findings.json`, replayed on the real code with an int64 column.  It is not repaired: the repair is either a type-aware planner decision or a general count-by kernel, neither of which is a minimal patch.\n\nOne more defect known from reading the code is not decided by any obligation and not repaired: the VNG builders and the vector-cache loader allocate `MemLength` bytes (and `Length` for the compressed buffer) exactly as the untrusted metadata section states, with no bound - a metadata section claiming a segment of 2^40 bytes makes the reader allocate that much (or panic in makeslice beyond the address space).  The verifier generates no resource-bound obligations (C11's \"no unbounded allocation\" is covered only where a configured limit exists, as for ZNG frames and the VNG header), and a repair needs a policy for the bound (segments are compressed, so the data-section size does not bound them) at five allocation sites.\n")
out.append("\nTwo entries were not first seen by an obligation but by seed-writing agents exploring the unchanged tree: the C15 entry for `commits.Diff` (the agent for seed C15-7 dropped a racing-delete variant of its demonstration because it already failed without its patch; reproduced through the lake API: main loads {x:1}, child branches and loads {x:2}, main deletes {x:1}, merging child into main gave {x:1}{x:2}; stated as the contract that a merge patch adds only what the child added, which cannot be proved for the pinned loop over `child.SelectAll()` and is proved for the repaired loop over `child.diff.SelectAll()`), and the C02 entry for empty containers: the agent that wrote seed C02-6 noticed a value that did not round-trip on the unchanged tree; it was reproduced by hand (`[]([int64])` -> `[]` -> `[null]`, `[](bar=[int64])` -> `[](=bar)` -> `bar=[null]`), stated as contracts on `formatValueAndDecorate`/`formatValue` (the decorator after an empty container must be told to spell the type out; ghost ledger of decorate's arguments), shown to fail on the pinned formatter (self-test mutations `*_empty_container_flag_dropped`), and repaired by one `fix:` commit.\n\nA second defect reported by the same agent is reproduced but neither decided nor repaired: a container of a *named* type whose elements are union values not all of whose member types occur (`[1((int64,string))](=bar)`) is written with two decorators, `[1]([(int64,string)])(=bar)`, and the short-form definition after another decorator is not ZSON (the grammar in docs/formats/zson.md allows `(=name)` only directly after the value; the parser fails with an internal error).  No contract in reach states it - the text is assembled by two different calls of `decorate` whose relation is the recursion structure of `formatValue` - and the repair (the container's decorator has to be deferred to the enclosing named type) touches the signature of `formatValue` and its ten call sites, which is more than a minimal fix; it is listed here so that it is not mistaken for a property that holds.\n")
out.append("\n## 7. Breaking changes written by independent agents, and which checks catch them\n\nEach change was produced by a fresh agent that saw only the property text and a scratch worktree; it compiles, passes the existing tests and comes with a demonstration test that fails with it and passes without it.  `tools/try_seed.sh` applies the patch to /repo, runs the property's quick check and reverses the patch.\n\n| seed | change | caught by | notes |\n|---|---|---|---|\n")
for d in sorted(glob.glob(f"{V}/seeded/*")):
    mp = os.path.join(d, "meta.json")
    if not os.path.exists(mp):
        continue
    m = json.load(open(mp))
    out.append(f"| {os.path.basename(d)} | {m.get('summary','')} | {m.get('detected_by','')} | {m.get('notes','')} |\n")
out.append(open(f"{V}/doc/DESIGN.tail.md").read())
open(f"{V}/DESIGN.md", "w").write("".join(out))
print("DESIGN.md written,", sum(len(x) for x in out), "bytes")
