package main

// Contract expression language: lexer + Pratt parser.
// Go expression syntax plus ==>, <==>, forall/exists, old(), c ? a : b, `in`.

import (
	"fmt"
	"strings"
	"unicode"
)

type tokKind int

const (
	tkEOF tokKind = iota
	tkIdent
	tkInt
	tkFloat
	tkString
	tkChar
	tkOp
)

type ctoken struct {
	kind tokKind
	text string
	pos  int
}

func lex(src string) ([]ctoken, error) {
	var toks []ctoken
	i := 0
	ops := []string{"<==>", "==>", "<<=", ">>=", "&^", "&&", "||", "==", "!=", "<=", ">=", "<<", ">>", "::", "..",
		"+", "-", "*", "/", "%", "&", "|", "^", "<", ">", "!", "(", ")", "[", "]", "{", "}", ",", ".", ":", "?", "="}
	for i < len(src) {
		c := src[i]
		if c == ' ' || c == '\t' || c == '\n' || c == '\r' {
			i++
			continue
		}
		if c == '/' && i+1 < len(src) && src[i+1] == '/' {
			break
		}
		if unicode.IsLetter(rune(c)) || c == '_' || c == '$' {
			j := i + 1
			for j < len(src) && (unicode.IsLetter(rune(src[j])) || unicode.IsDigit(rune(src[j])) || src[j] == '_' || src[j] == '$') {
				j++
			}
			toks = append(toks, ctoken{tkIdent, src[i:j], i})
			i = j
			continue
		}
		if unicode.IsDigit(rune(c)) {
			j := i + 1
			isFloat := false
			if c == '0' && j < len(src) && (src[j] == 'x' || src[j] == 'X') {
				j++
				for j < len(src) && (unicode.IsDigit(rune(src[j])) || strings.ContainsRune("abcdefABCDEF_", rune(src[j]))) {
					j++
				}
			} else {
				for j < len(src) && (unicode.IsDigit(rune(src[j])) || src[j] == '_') {
					j++
				}
				if j+1 < len(src) && src[j] == '.' && unicode.IsDigit(rune(src[j+1])) {
					isFloat = true
					j++
					for j < len(src) && unicode.IsDigit(rune(src[j])) {
						j++
					}
				}
				if j < len(src) && (src[j] == 'e' || src[j] == 'E') {
					isFloat = true
					j++
					if j < len(src) && (src[j] == '+' || src[j] == '-') {
						j++
					}
					for j < len(src) && unicode.IsDigit(rune(src[j])) {
						j++
					}
				}
			}
			k := tkInt
			if isFloat {
				k = tkFloat
			}
			toks = append(toks, ctoken{k, strings.ReplaceAll(src[i:j], "_", ""), i})
			i = j
			continue
		}
		if c == '"' {
			j := i + 1
			for j < len(src) && src[j] != '"' {
				if src[j] == '\\' {
					j++
				}
				j++
			}
			if j >= len(src) {
				return nil, fmt.Errorf("unterminated string at %d", i)
			}
			toks = append(toks, ctoken{tkString, src[i : j+1], i})
			i = j + 1
			continue
		}
		if c == '\'' {
			j := i + 1
			for j < len(src) && src[j] != '\'' {
				if src[j] == '\\' {
					j++
				}
				j++
			}
			if j >= len(src) {
				return nil, fmt.Errorf("unterminated char at %d", i)
			}
			toks = append(toks, ctoken{tkChar, src[i : j+1], i})
			i = j + 1
			continue
		}
		matched := false
		for _, op := range ops {
			if strings.HasPrefix(src[i:], op) {
				toks = append(toks, ctoken{tkOp, op, i})
				i += len(op)
				matched = true
				break
			}
		}
		if !matched {
			return nil, fmt.Errorf("bad character %q at %d", c, i)
		}
	}
	toks = append(toks, ctoken{tkEOF, "", len(src)})
	return toks, nil
}

// ---- AST ----

type cexpr interface{ String() string }

type (
	cIdent  struct{ name string }
	cIntLit struct{ val string }
	cFltLit struct{ val string }
	cStrLit struct{ val string } // unquoted value
	cUnary  struct {
		op string
		x  cexpr
	}
	cBinary struct {
		op   string
		x, y cexpr
	}
	cCall struct {
		fun  cexpr
		args []cexpr
	}
	cSel struct {
		x    cexpr
		name string
	}
	cIndex struct{ x, idx cexpr }
	cSlice struct{ x, lo, hi cexpr }
	cQuant struct {
		forall bool
		vars   []cparam
		body   cexpr
	}
	cCond  struct{ c, a, b cexpr }
	cTypeX struct{ t *ctype } // a type used as expression (conversion target / typeis arg)
)

type cparam struct {
	name string
	typ  *ctype
}

// ctype is a syntactic type.
type ctype struct {
	kind string // "name", "ptr", "slice", "map", "set", "array"
	name string // for name: possibly qualified pkg.Name
	elem *ctype
	key  *ctype
	n    string
}

func (t *ctype) String() string {
	switch t.kind {
	case "name":
		return t.name
	case "ptr":
		return "*" + t.elem.String()
	case "slice":
		return "[]" + t.elem.String()
	case "array":
		return "[" + t.n + "]" + t.elem.String()
	case "map":
		return "map[" + t.key.String() + "]" + t.elem.String()
	case "set":
		return "set[" + t.elem.String() + "]"
	case "seq":
		return "seq[" + t.elem.String() + "]"
	case "func":
		return "func"
	}
	return "?"
}

func (e *cIdent) String() string  { return e.name }
func (e *cIntLit) String() string { return e.val }
func (e *cFltLit) String() string { return e.val }
func (e *cStrLit) String() string { return fmt.Sprintf("%q", e.val) }
func (e *cUnary) String() string  { return "(" + e.op + e.x.String() + ")" }
func (e *cBinary) String() string { return "(" + e.x.String() + " " + e.op + " " + e.y.String() + ")" }
func (e *cCall) String() string {
	var a []string
	for _, x := range e.args {
		a = append(a, x.String())
	}
	return e.fun.String() + "(" + strings.Join(a, ", ") + ")"
}
func (e *cSel) String() string   { return e.x.String() + "." + e.name }
func (e *cIndex) String() string { return e.x.String() + "[" + e.idx.String() + "]" }
func (e *cSlice) String() string {
	lo, hi := "", ""
	if e.lo != nil {
		lo = e.lo.String()
	}
	if e.hi != nil {
		hi = e.hi.String()
	}
	return e.x.String() + "[" + lo + ":" + hi + "]"
}
func (e *cQuant) String() string {
	q := "exists"
	if e.forall {
		q = "forall"
	}
	var vs []string
	for _, v := range e.vars {
		vs = append(vs, v.name+" "+v.typ.String())
	}
	return "(" + q + " " + strings.Join(vs, ", ") + " :: " + e.body.String() + ")"
}
func (e *cCond) String() string {
	return "(" + e.c.String() + " ? " + e.a.String() + " : " + e.b.String() + ")"
}
func (e *cTypeX) String() string { return e.t.String() }

// ---- parser ----

type cparser struct {
	toks []ctoken
	p    int
	src  string
}

func parseCExpr(src string) (e cexpr, err error) {
	toks, err := lex(src)
	if err != nil {
		return nil, err
	}
	p := &cparser{toks: toks, src: src}
	defer func() {
		if r := recover(); r != nil {
			if pe, ok := r.(parseErr); ok {
				err = fmt.Errorf("%s in %q", string(pe), src)
				return
			}
			panic(r)
		}
	}()
	e = p.expr(0)
	if p.peek().kind != tkEOF {
		p.fail("unexpected %q", p.peek().text)
	}
	return e, nil
}

type parseErr string

func (p *cparser) fail(f string, a ...any) {
	panic(parseErr(fmt.Sprintf(f, a...) + fmt.Sprintf(" at col %d", p.peek().pos)))
}
func (p *cparser) peek() ctoken { return p.toks[p.p] }
func (p *cparser) next() ctoken { t := p.toks[p.p]; p.p++; return t }
func (p *cparser) isOp(s string) bool {
	t := p.peek()
	return t.kind == tkOp && t.text == s
}
func (p *cparser) expect(s string) {
	if !p.isOp(s) {
		p.fail("expected %q, got %q", s, p.peek().text)
	}
	p.p++
}

var binPrec = map[string]int{
	"<==>": 1, "==>": 2, "||": 4, "&&": 5,
	"==": 6, "!=": 6, "<": 6, "<=": 6, ">": 6, ">=": 6, "in": 6,
	"+": 7, "-": 7, "|": 7, "^": 7,
	"*": 8, "/": 8, "%": 8, "<<": 8, ">>": 8, "&": 8, "&^": 8,
}

func (p *cparser) expr(minPrec int) cexpr {
	// quantifiers bind loosest
	if t := p.peek(); t.kind == tkIdent && (t.text == "forall" || t.text == "exists") {
		p.next()
		q := &cQuant{forall: t.text == "forall"}
		for {
			var names []string
			names = append(names, p.ident())
			for p.isOp(",") {
				// lookahead: name , name type  OR name type , name type
				p.next()
				names = append(names, p.ident())
			}
			typ := p.parseType()
			for _, n := range names {
				q.vars = append(q.vars, cparam{n, typ})
			}
			if p.isOp(",") {
				p.next()
				continue
			}
			break
		}
		p.expect("::")
		q.body = p.expr(0)
		return q
	}
	lhs := p.unary()
	for {
		t := p.peek()
		var op string
		if t.kind == tkOp {
			op = t.text
		} else if t.kind == tkIdent && t.text == "in" {
			op = "in"
		} else {
			break
		}
		if op == "?" && minPrec <= 0 {
			p.next()
			a := p.expr(0)
			p.expect(":")
			b := p.expr(0)
			lhs = &cCond{lhs, a, b}
			continue
		}
		prec, ok := binPrec[op]
		if !ok || prec < minPrec {
			break
		}
		p.next()
		var rhs cexpr
		if op == "==>" || op == "<==>" {
			rhs = p.expr(prec) // right assoc
		} else {
			rhs = p.expr(prec + 1)
		}
		// chained comparison a <= b < c  ==> (a<=b) && (b<c)
		if prec == 6 && op != "in" {
			if lb, ok := lhs.(*cBinary); ok && binPrec[lb.op] == 6 && lb.op != "==" && lb.op != "!=" && op != "==" && op != "!=" && !lbParen[lb] {
				lhs = &cBinary{"&&", lhs, &cBinary{op, lb.y, rhs}}
				continue
			}
		}
		lhs = &cBinary{op, lhs, rhs}
	}
	return lhs
}

var lbParen = map[*cBinary]bool{}

var basicTypeNames = map[string]bool{"int": true, "int8": true, "int16": true, "int32": true, "int64": true, "uint": true, "uint8": true,
	"uint16": true, "uint32": true, "uint64": true, "uintptr": true, "byte": true, "rune": true, "bool": true, "string": true,
	"float32": true, "float64": true, "error": true, "any": true, "ref": true, "mathint": true, "real": true}

func (p *cparser) ident() string {
	t := p.next()
	if t.kind != tkIdent {
		p.p--
		p.fail("expected identifier, got %q", t.text)
	}
	return t.text
}

func (p *cparser) parseType() *ctype {
	if p.isOp("*") {
		p.next()
		return &ctype{kind: "ptr", elem: p.parseType()}
	}
	if p.isOp("[") {
		p.next()
		if p.isOp("]") {
			p.next()
			return &ctype{kind: "slice", elem: p.parseType()}
		}
		n := p.next()
		p.expect("]")
		return &ctype{kind: "array", n: n.text, elem: p.parseType()}
	}
	name := p.ident()
	if name == "func" {
		// function type: the parameter and result lists are skipped (only its sort matters)
		skip := func() {
			p.expect("(")
			depth := 1
			for depth > 0 {
				t := p.next()
				if t.kind == tkEOF {
					p.fail("unterminated func type")
				}
				if t.kind == tkOp && t.text == "(" {
					depth++
				}
				if t.kind == tkOp && t.text == ")" {
					depth--
				}
			}
		}
		skip()
		if p.isOp("(") {
			skip()
		} else if t := p.peek(); t.kind == tkIdent || (t.kind == tkOp && (t.text == "*" || t.text == "[")) {
			p.parseType()
		}
		return &ctype{kind: "func"}
	}
	if name == "map" {
		p.expect("[")
		k := p.parseType()
		p.expect("]")
		return &ctype{kind: "map", key: k, elem: p.parseType()}
	}
	if name == "set" || name == "seq" {
		p.expect("[")
		k := p.parseType()
		p.expect("]")
		return &ctype{kind: name, elem: k}
	}
	for p.isOp(".") {
		p.next()
		name += "." + p.ident()
	}
	if name == "interface" && p.isOp("{") {
		p.next()
		p.expect("}")
		name = "any"
	}
	if name == "struct" && p.isOp("{") {
		p.next()
		p.expect("}")
		name = "struct{}"
	}
	return &ctype{kind: "name", name: name}
}

func (p *cparser) unary() cexpr {
	t := p.peek()
	if t.kind == tkOp {
		switch t.text {
		case "!", "-", "^":
			p.next()
			return &cUnary{t.text, p.unary()}
		case "*":
			p.next()
			return &cUnary{"*", p.unary()}
		case "&":
			p.next()
			return &cUnary{"&", p.unary()}
		}
	}
	return p.postfix(p.primary())
}

func (p *cparser) primary() cexpr {
	t := p.next()
	switch t.kind {
	case tkInt:
		return &cIntLit{t.text}
	case tkFloat:
		return &cFltLit{t.text}
	case tkString:
		s, err := unquote(t.text)
		if err != nil {
			p.fail("bad string %s", t.text)
		}
		return &cStrLit{s}
	case tkChar:
		s, err := unquote("\"" + strings.ReplaceAll(t.text[1:len(t.text)-1], "\"", "\\\"") + "\"")
		if err != nil || len(s) == 0 {
			p.fail("bad char %s", t.text)
		}
		return &cIntLit{fmt.Sprint(int([]rune(s)[0]))}
	case tkIdent:
		return &cIdent{t.text}
	case tkOp:
		if t.text == "(" {
			e := p.expr(0)
			p.expect(")")
			if b, ok := e.(*cBinary); ok {
				lbParen[b] = true
			}
			return e
		}
		if t.text == "[" || t.text == "*" {
			p.p--
			return &cTypeX{p.parseType()}
		}
	}
	p.p--
	p.fail("unexpected %q", t.text)
	return nil
}

func unquote(s string) (string, error) {
	var sb strings.Builder
	s = s[1 : len(s)-1]
	for i := 0; i < len(s); i++ {
		c := s[i]
		if c != '\\' {
			sb.WriteByte(c)
			continue
		}
		i++
		if i >= len(s) {
			return "", fmt.Errorf("bad escape")
		}
		switch s[i] {
		case 'n':
			sb.WriteByte('\n')
		case 't':
			sb.WriteByte('\t')
		case 'r':
			sb.WriteByte('\r')
		case '\\':
			sb.WriteByte('\\')
		case '"':
			sb.WriteByte('"')
		case '\'':
			sb.WriteByte('\'')
		case '0':
			sb.WriteByte(0)
		case 'x':
			if i+2 >= len(s)+0 && i+2 > len(s)-1+1 {
				return "", fmt.Errorf("bad escape")
			}
			var v int
			fmt.Sscanf(s[i+1:i+3], "%x", &v)
			sb.WriteByte(byte(v))
			i += 2
		default:
			return "", fmt.Errorf("bad escape")
		}
	}
	return sb.String(), nil
}

func (p *cparser) postfix(e cexpr) cexpr {
	for {
		switch {
		case p.isOp("."):
			p.next()
			if p.isOp("(") { // type assertion not supported
				p.fail("type assertion not supported; use typeis")
			}
			e = &cSel{e, p.ident()}
		case p.isOp("("):
			p.next()
			var args []cexpr
			for !p.isOp(")") {
				// allow types as args (typeis(x, *T)) and conversions
				if p.isOp("*") || p.isOp("[") {
					save := p.p
					func() {
						defer func() {
							if r := recover(); r != nil {
								p.p = save
								args = append(args, p.expr(0))
							}
						}()
						ty := p.parseType()
						if !(p.isOp(",") || p.isOp(")")) {
							panic(parseErr("not a type"))
						}
						// `*v` with a lower-case, unqualified, non-basic name is a
						// dereference of a variable, not a pointer type
						if ty.kind == "ptr" && ty.elem.kind == "name" && !strings.Contains(ty.elem.name, ".") {
							n := ty.elem.name
							if n != "" && n[0] >= 'a' && n[0] <= 'z' && !basicTypeNames[n] {
								panic(parseErr("not a type"))
							}
						}
						args = append(args, &cTypeX{ty})
					}()
				} else {
					args = append(args, p.expr(0))
				}
				if p.isOp(",") {
					p.next()
				} else {
					break
				}
			}
			p.expect(")")
			e = &cCall{e, args}
		case p.isOp("["):
			p.next()
			var lo, hi cexpr
			if p.isOp(":") {
				p.next()
				if !p.isOp("]") {
					hi = p.expr(0)
				}
				p.expect("]")
				e = &cSlice{e, nil, hi}
				continue
			}
			lo = p.expr(0)
			if p.isOp(":") {
				p.next()
				if !p.isOp("]") {
					hi = p.expr(0)
				}
				p.expect("]")
				e = &cSlice{e, lo, hi}
				continue
			}
			p.expect("]")
			e = &cIndex{e, lo}
		default:
			return e
		}
	}
}
