package main

// Global (visible-state) object invariants:
//
//	//@ global invariant (b *buffer) 0 <= b.off && b.off <= len(b.data)
//
// The invariant is assumed for every object of the type at function entry, after every
// call and at loop heads; a function that itself stores to a field the invariant reads
// must re-establish it (for all objects) before every call and at every return, and
// carries it as an implicit loop invariant.

import (
	"fmt"
	"go/token"
	"go/types"
	"regexp"
	"sort"
	"strings"

	"golang.org/x/tools/go/ssa"
)

type ginv struct {
	decl  *typeInvariant
	typ   types.Type // pointer type of the receiver
	keys  map[string]bool
	check bool // this function stores to one of the keys directly
}

var reSelPat = regexp.MustCompile(`\(select [A-Za-z0-9_!]+ q!self!0\)`)

// ginvFormula builds  forall r :: r > 0 ==> inv(r)  over state st.
func (g *fgen) ginvFormula(gi *ginv, st *state) string {
	nq := new(int)
	var pkg *types.Package = g.w.allTPkg[gi.decl.pkgPath]
	q := "q!self!0"
	env := &cenv{g: g, st: st, old: g.entry, vars: map[string]val{gi.decl.recvName: {q, gi.typ, "Int"}}, pkg: pkg, nq: nq}
	body := env.bool(gi.decl.e)
	pats := reSelPat.FindAllString(body, -1)
	seen := map[string]bool{}
	var ps []string
	for _, p := range pats {
		if !seen[p] {
			seen[p] = true
			ps = append(ps, ":pattern ("+p+")")
		}
	}
	sort.Strings(ps)
	guard := "(< 0 " + q + ")"
	if len(g.ginvExempt) > 0 {
		// objects under construction (allocated, not yet visible to anybody else)
		parts := []string{guard}
		for _, r := range g.ginvExempt {
			parts = append(parts, fmt.Sprintf("(not (= %s %s))", q, r))
		}
		guard = "(and " + strings.Join(parts, " ") + ")"
	}
	if len(ps) == 0 {
		return fmt.Sprintf("(forall ((%s Int)) (=> %s %s))", q, guard, body)
	}
	return fmt.Sprintf("(forall ((%s Int)) (! (=> %s %s) %s))", q, guard, body, strings.Join(ps, " "))
}

// underConstruction: the struct objects allocated earlier in the call's block whose
// address has not been used for anything but field addressing before the call, and is
// not handed to the call.  Nobody but this function can see them yet, so the object
// invariants checked and assumed around the call do not speak of them.
func (g *fgen) underConstruction(in ssa.CallInstruction) []string {
	var cands []*ssa.Alloc
	for _, x := range in.Block().Instrs {
		if x == ssa.Instruction(in) {
			break
		}
		if a, ok := x.(*ssa.Alloc); ok {
			if _, isS := isStructVal(a.Type().Underlying().(*types.Pointer).Elem()); isS {
				cands = append(cands, a)
			}
			continue
		}
		for _, op := range x.Operands(nil) {
			if op == nil || *op == nil {
				continue
			}
			for i, a := range cands {
				if a == nil || *op != ssa.Value(a) {
					continue
				}
				switch y := x.(type) {
				case *ssa.FieldAddr:
					if y.X == ssa.Value(a) {
						continue
					}
				case *ssa.DebugRef:
					continue
				}
				cands[i] = nil // used for something else: may be visible
			}
		}
	}
	var out []string
	for _, a := range cands {
		if a == nil {
			continue
		}
		used := false
		for _, op := range in.Operands(nil) {
			if op != nil && *op == ssa.Value(a) {
				used = true
			}
		}
		if v, ok := g.vals[a]; ok && !used {
			out = append(out, v.t)
		}
	}
	return out
}

// directStoreKeys: heap keys written by Store/MapUpdate instructions of fn itself.
func (w *world) directStoreKeys(fn *ssa.Function) map[string]bool {
	out := map[string]bool{}
	kg := w.keygen()
	ms := newModset()
	for _, b := range fn.Blocks {
		for _, in := range b.Instrs {
			switch in.(type) {
			case *ssa.Store, *ssa.MapUpdate:
				w.instrMods(kg, in, ms)
			}
		}
	}
	for _, k := range sortedKeys(ms.any) {
		out[k] = true
	}
	for _, k := range sortedKeys(ms.fresh) {
		out[k] = true
	}
	if ms.all {
		out["*"] = true
	}
	return out
}

func (g *fgen) setupGinvs() {
	direct := g.w.directStoreKeys(g.fn)
	// only invariants of types this function's package can see
	visible := map[string]bool{}
	var walk func(p *types.Package)
	walk = func(p *types.Package) {
		if p == nil || visible[p.Path()] {
			return
		}
		visible[p.Path()] = true
		for _, q := range p.Imports() {
			walk(q)
		}
	}
	if g.fn != nil && g.fn.Pkg != nil {
		walk(g.fn.Pkg.Pkg)
	} else if g.fn != nil && g.fn.Parent() != nil && g.fn.Parent().Pkg != nil {
		walk(g.fn.Parent().Pkg.Pkg)
	}
	mentioned := g.mentionedNames()
	for _, inv := range g.w.cs.ginvariants {
		pkg := g.w.allTPkg[inv.pkgPath]
		if pkg == nil || !visible[inv.pkgPath] {
			continue
		}
		// relevance: an invariant of a type this function (its code, its contract, the
		// contracts of its callees) never names constrains heap cells its verification
		// condition never reads; leaving it out only drops an assumption
		bn := strings.TrimPrefix(inv.recvType, "*")
		if i := strings.LastIndex(bn, "."); i >= 0 {
			bn = bn[i+1:]
		}
		if mentioned != nil && !mentioned[bn] {
			continue
		}
		ct, err := parseTypeString(inv.recvType)
		if err != nil {
			continue
		}
		t, err := g.resolveType(ct, pkg)
		if err != nil {
			continue
		}
		gi := &ginv{decl: inv, typ: t, keys: map[string]bool{}}
		// keys the invariant reads: translate once and scan for heap names
		before := map[string]bool{}
		for _, k := range sortedKeys(g.heapSort) {
			before[k] = true
		}
		f := g.ginvFormula(gi, g.entry)
		for _, k := range sortedKeys(g.heapSort) {
			if strings.Contains(f, "_"+k+" ") || strings.Contains(f, "_"+k+")") || strings.Contains(f, "_"+k+"!") {
				gi.keys[k] = true
			}
		}
		for _, k := range sortedKeys(gi.keys) {
			if direct[k] || direct["*"] {
				gi.check = true
			}
		}
		g.ginvs = append(g.ginvs, gi)
	}
}

func (g *fgen) assumeGinvs(st *state) {
	for _, gi := range g.ginvs {
		g.emit("(assert " + g.ginvFormula(gi, st) + ")")
	}
}

func (g *fgen) assertGinvs(st *state, kind, site string, pos token.Pos) {
	for _, gi := range g.ginvs {
		if !gi.check {
			continue
		}
		g.oblige(kind, gi.decl.recvType+"@"+site, g.ginvFormula(gi, st), pos)
		g.obls[len(g.obls)-1].src = "global invariant (" + gi.decl.recvName + " " + gi.decl.recvType + ") " + gi.decl.src
	}
}

var reIdent = regexp.MustCompile(`[A-Za-z_][A-Za-z0-9_]*`)

// mentionedNames: names of the struct types the function's code touches and every
// identifier in its contract and in the contracts of its static callees.
func (g *fgen) mentionedNames() map[string]bool {
	if g.fn == nil {
		return nil
	}
	out := map[string]bool{}
	var addType func(t types.Type, depth int)
	addType = func(t types.Type, depth int) {
		if t == nil || depth > 3 {
			return
		}
		switch u := t.(type) {
		case *types.Pointer:
			addType(u.Elem(), depth)
		case *types.Slice:
			addType(u.Elem(), depth)
		case *types.Array:
			addType(u.Elem(), depth)
		case *types.Map:
			addType(u.Key(), depth)
			addType(u.Elem(), depth)
		case *types.Named:
			out[u.Obj().Name()] = true
			if s, ok := u.Underlying().(*types.Struct); ok && depth < 3 {
				for i := 0; i < s.NumFields(); i++ {
					addType(s.Field(i).Type(), depth+1)
				}
			}
		}
	}
	addContract := func(fc *funcContract) {
		if fc == nil {
			return
		}
		var srcs []string
		for _, c := range fc.requires {
			srcs = append(srcs, c.src)
		}
		for _, c := range fc.ensures {
			srcs = append(srcs, c.src)
		}
		for _, c := range fc.defines {
			srcs = append(srcs, c.src)
		}
		for _, ls := range fc.loops {
			for _, c := range ls.invariants {
				srcs = append(srcs, c.src)
			}
		}
		srcs = append(srcs, fc.modifies...)
		srcs = append(srcs, fc.preserves...)
		for _, s := range srcs {
			for _, id := range reIdent.FindAllString(s, -1) {
				out[id] = true
				// spec functions named by the clause: their bodies too (one level)
				if sf := g.w.cs.specs[id]; sf != nil && sf.body != nil {
					for _, id2 := range reIdent.FindAllString(sf.body.String(), -1) {
						out[id2] = true
					}
					for _, p := range sf.params {
						for _, id2 := range reIdent.FindAllString(p.typ.String(), -1) {
							out[id2] = true
						}
					}
				}
			}
		}
	}
	var visit func(fn *ssa.Function)
	seen := map[*ssa.Function]bool{}
	visit = func(fn *ssa.Function) {
		if seen[fn] {
			return
		}
		seen[fn] = true
		for _, p := range fn.Params {
			addType(p.Type(), 0)
		}
		for _, fv := range fn.FreeVars {
			addType(fv.Type(), 0)
		}
		for _, b := range fn.Blocks {
			for _, in := range b.Instrs {
				if v, ok := in.(ssa.Value); ok {
					addType(v.Type(), 0)
				}
				if ci, ok := in.(ssa.CallInstruction); ok {
					c := ci.Common()
					if c.IsInvoke() {
						pp, k := ifaceMethodKey(c.Method)
						addContract(g.w.cs.funcs[pp+"::"+k])
					} else if callee := c.StaticCallee(); callee != nil {
						addContract(g.w.contractFor(callee))
						if sig := callee.Signature; sig != nil {
							for i := 0; i < sig.Params().Len(); i++ {
								addType(sig.Params().At(i).Type(), 1)
							}
						}
					}
				}
			}
		}
		for _, a := range fn.AnonFuncs {
			visit(a)
		}
	}
	visit(g.fn)
	addContract(g.fc)
	return out
}
