package main

import (
	"fmt"
	"go/ast"
	"go/token"
	"go/types"
	"os"
	"path/filepath"
	"sort"
	"strings"

	"golang.org/x/tools/go/packages"
	"golang.org/x/tools/go/ssa"
)

const repoDir = "/repo"
const modPath = "github.com/brimdata/super"

type world struct {
	fset    *token.FileSet
	prog    *ssa.Program
	pkgs    map[string]*packages.Package
	spkgs   map[string]*ssa.Package
	allTPkg map[string]*types.Package // every types.Package reachable
	cs      *contractSet
	typeIDs map[string]int
	typeOf  map[int]types.Type
	src     map[string][]byte
	modsets map[*ssa.Function]*modset
	libFrames map[string]bool
	stale     map[string]bool // contracts whose header no longer matches the function
	overlay map[string][]byte
}

func loadWorld(patterns []string, overlay map[string][]byte) (*world, error) {
	cfg := &packages.Config{
		Mode: packages.NeedName | packages.NeedFiles | packages.NeedCompiledGoFiles | packages.NeedImports |
			packages.NeedTypes | packages.NeedTypesSizes | packages.NeedSyntax | packages.NeedTypesInfo,
		Dir:        repoDir,
		BuildFlags: []string{"-tags=verif"},
		Env:        append(os.Environ(), "GOFLAGS=-mod=mod", "GOPROXY=off", "GOSUMDB=off", "GOTOOLCHAIN=local"),
		Overlay:    overlay,
	}
	pkgs, err := packages.Load(cfg, patterns...)
	if err != nil {
		return nil, err
	}
	w := &world{pkgs: map[string]*packages.Package{}, spkgs: map[string]*ssa.Package{}, allTPkg: map[string]*types.Package{},
		typeIDs: map[string]int{}, typeOf: map[int]types.Type{}, src: map[string][]byte{}, modsets: map[*ssa.Function]*modset{}, overlay: overlay, libFrames: map[string]bool{}, stale: map[string]bool{}}
	if len(pkgs) == 0 {
		return nil, fmt.Errorf("no packages")
	}
	w.fset = pkgs[0].Fset
	for _, p := range pkgs {
		if len(p.Errors) > 0 {
			return nil, fmt.Errorf("package %s: %v", p.PkgPath, p.Errors[0])
		}
	}
	w.prog = ssa.NewProgram(w.fset, ssa.InstantiateGenerics|ssa.GlobalDebug)
	initial := map[*types.Package]*packages.Package{}
	for _, p := range pkgs {
		initial[p.Types] = p
		w.pkgs[p.PkgPath] = p
	}
	seen := map[*types.Package]bool{}
	var visit func(p *types.Package)
	visit = func(p *types.Package) {
		if seen[p] {
			return
		}
		seen[p] = true
		w.allTPkg[p.Path()] = p
		for _, q := range p.Imports() {
			visit(q)
		}
		if w.prog.Package(p) == nil {
			if ip, ok := initial[p]; ok {
				w.spkgs[p.Path()] = w.prog.CreatePackage(p, ip.Syntax, ip.TypesInfo, true)
			} else {
				w.prog.CreatePackage(p, nil, nil, true)
			}
		}
	}
	for _, p := range pkgs {
		visit(p.Types)
	}
	for _, sp := range w.spkgs {
		sp.Build()
	}
	return w, nil
}

// relPkg maps a package path to a directory relative to the repo.
func relPkg(pkgPath string) string {
	if pkgPath == modPath {
		return "."
	}
	return "./" + strings.TrimPrefix(pkgPath, modPath+"/")
}

func (w *world) loadContracts(trustedDir string) error {
	w.cs = newContractSet()
	var paths []string
	for pp := range w.pkgs {
		paths = append(paths, pp)
	}
	sort.Strings(paths)
	// contract files of every repo package reachable from the loaded ones (callees'
	// contracts are needed at call sites even when the callee's package is not loaded)
	paths = paths[:0]
	for pp := range w.allTPkg {
		if pp == modPath || strings.HasPrefix(pp, modPath+"/") {
			paths = append(paths, pp)
		}
	}
	sort.Strings(paths)
	for _, pp := range paths {
		dir := filepath.Join(repoDir, strings.TrimPrefix(relPkg(pp), "./"))
		fs, _ := filepath.Glob(filepath.Join(dir, "verif_contracts*.go"))
		sort.Strings(fs)
		for _, f := range fs {
			if err := w.cs.loadContractFile(f, pp); err != nil {
				return err
			}
		}
	}
	ents, _ := filepath.Glob(filepath.Join(trustedDir, "*.vc"))
	sort.Strings(ents)
	for _, f := range ents {
		if err := w.cs.loadContractFile(f, ""); err != nil {
			return err
		}
	}
	if err := w.cs.applyRefines(); err != nil {
		return err
	}
	w.cs.applyInvariants()
	return nil
}

func (w *world) readSrc(file string) []byte {
	if b, ok := w.src[file]; ok {
		return b
	}
	if b, ok := w.overlay[file]; ok {
		w.src[file] = b
		return b
	}
	b, _ := os.ReadFile(file)
	w.src[file] = b
	return b
}

// findFunc resolves a contract key to an SSA function within a package.
func (w *world) findFunc(pkgPath, key string) *ssa.Function {
	sp := w.spkgs[pkgPath]
	var tp *types.Package
	if sp != nil {
		tp = sp.Pkg
	} else {
		tp = w.allTPkg[pkgPath]
	}
	if tp == nil {
		return nil
	}
	closure := ""
	if i := strings.Index(key, "$"); i >= 0 {
		closure = key[i+1:]
		key = key[:i]
	}
	var fn *ssa.Function
	if strings.HasPrefix(key, "(") {
		// method
		end := strings.Index(key, ").")
		recv := key[1:end]
		name := key[end+2:]
		ptr := strings.HasPrefix(recv, "*")
		recv = strings.TrimPrefix(recv, "*")
		obj := tp.Scope().Lookup(recv)
		if obj == nil {
			return nil
		}
		var T types.Type = obj.Type()
		if ptr {
			T = types.NewPointer(T)
		}
		ms := w.prog.MethodSets.MethodSet(T)
		for i := 0; i < ms.Len(); i++ {
			if ms.At(i).Obj().Name() == name {
				fn = w.prog.MethodValue(ms.At(i))
				break
			}
		}
	} else {
		obj := tp.Scope().Lookup(key)
		if f, ok := obj.(*types.Func); ok {
			fn = w.prog.FuncValue(f)
		}
	}
	if fn == nil {
		return nil
	}
	for closure != "" {
		part := closure
		rest := ""
		if i := strings.Index(closure, "$"); i >= 0 {
			part, rest = closure[:i], closure[i+1:]
		}
		var n int
		fmt.Sscanf(part, "%d", &n)
		if n < 1 || n > len(fn.AnonFuncs) {
			return nil
		}
		fn = fn.AnonFuncs[n-1]
		closure = rest
	}
	return fn
}

// funcKey computes the contract key for an SSA function (inverse of findFunc).
func funcKey(fn *ssa.Function) (pkgPath, key string) {
	if fn.Parent() != nil {
		pp, pk := funcKey(fn.Parent())
		for i, a := range fn.Parent().AnonFuncs {
			if a == fn {
				return pp, fmt.Sprintf("%s$%d", pk, i+1)
			}
		}
		return pp, pk + "$?"
	}
	if fn.Pkg != nil {
		pkgPath = fn.Pkg.Pkg.Path()
	} else if fn.Object() != nil && fn.Object().Pkg() != nil {
		pkgPath = fn.Object().Pkg().Path()
	}
	if o := fn.Origin(); o != nil && o != fn {
		// instantiated generic: use origin's name
		_, k := funcKey(o)
		return pkgPath, k
	}
	if recv := fn.Signature.Recv(); recv != nil {
		t := recv.Type()
		ptr := false
		if p, ok := t.(*types.Pointer); ok {
			ptr = true
			t = p.Elem()
		}
		name := "?"
		if n, ok := t.(*types.Named); ok {
			name = n.Obj().Name()
		}
		if ptr {
			name = "*" + name
		}
		return pkgPath, "(" + name + ")." + fn.Name()
	}
	return pkgPath, fn.Name()
}

// ifaceMethodKey returns the contract key of an interface method.
func ifaceMethodKey(m *types.Func) (pkgPath, key string) {
	sig := m.Type().(*types.Signature)
	recv := sig.Recv()
	name := "?"
	if recv != nil {
		if n, ok := recv.Type().(*types.Named); ok {
			name = n.Obj().Name()
			if n.Obj().Pkg() != nil {
				pkgPath = n.Obj().Pkg().Path()
			}
		}
	}
	if pkgPath == "" && m.Pkg() != nil {
		pkgPath = m.Pkg().Path()
	}
	return pkgPath, "(" + name + ")." + m.Name()
}

// srcText returns the source text between two positions (single line, squeezed).
func (w *world) srcText(pos, end token.Pos) string {
	if !pos.IsValid() {
		return ""
	}
	p := w.fset.Position(pos)
	b := w.readSrc(p.Filename)
	if p.Offset >= len(b) {
		return ""
	}
	var e int
	if end.IsValid() {
		e = w.fset.Position(end).Offset
	} else {
		e = p.Offset
		for e < len(b) && b[e] != '\n' {
			e++
		}
	}
	if e > len(b) {
		e = len(b)
	}
	s := string(b[p.Offset:e])
	s = strings.Join(strings.Fields(s), " ")
	if len(s) > 60 {
		s = s[:60]
	}
	return s
}

// enclosingExpr finds the smallest ast expression node at pos in the function's syntax.
func (w *world) nodeTextAt(fn *ssa.Function, pos token.Pos) string {
	if !pos.IsValid() {
		return ""
	}
	root := fn.Syntax()
	for root == nil && fn.Parent() != nil {
		fn = fn.Parent()
		root = fn.Syntax()
	}
	if root == nil {
		return w.srcText(pos, token.NoPos)
	}
	var best ast.Node
	ast.Inspect(root, func(n ast.Node) bool {
		if n == nil {
			return false
		}
		if n.Pos() <= pos && pos < n.End() {
			switch n.(type) {
			case ast.Expr:
				// prefer the smallest expr whose "operator position" is pos
				switch x := n.(type) {
				case *ast.IndexExpr:
					if x.Lbrack == pos {
						best = n
					}
				case *ast.SliceExpr:
					if x.Lbrack == pos {
						best = n
					}
				case *ast.StarExpr:
					if x.Star == pos {
						best = n
					}
				case *ast.BinaryExpr:
					if x.OpPos == pos {
						best = n
					}
				case *ast.CallExpr:
					if x.Lparen == pos {
						best = n
					}
				case *ast.SelectorExpr:
					if x.Sel.Pos() == pos {
						best = n
					}
				case *ast.TypeAssertExpr:
					if x.Lparen == pos {
						best = n
					}
				case *ast.Ident:
					if x.Pos() == pos && best == nil {
						best = n
					}
				}
			}
			return true
		}
		return false
	})
	if best != nil {
		return w.srcText(best.Pos(), best.End())
	}
	return w.srcText(pos, token.NoPos)
}
