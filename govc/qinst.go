package main

// Instantiation hints for assumed universally quantified clauses.
//
// A requires clause or loop invariant of the form  forall x int :: P(x)  (possibly
// under an implication) is assumed as a quantified fact, and additionally instantiated
// at every integer term the function uses to index a slice.  The instances are logical
// consequences of the assumed fact, so this only helps the solver (E-matching on index
// arithmetic is brittle); it adds no assumption.

import (
	"fmt"
	"go/types"
	"strings"
)

type quantAssumed struct {
	guard string // guard under which the clause was assumed
	hole  string // placeholder constant standing for the bound variable
	body  string // instance template (range constraints included)
}

// noteQuantAssumed records an assumed clause if it has the supported shape.
func (g *fgen) noteQuantAssumed(env *cenv, c clause, guard string) {
	defer func() {
		if r := recover(); r != nil {
			if _, ok := r.(transErr); !ok {
				panic(r)
			}
		}
	}()
	var pre []cexpr
	e := c.e
	for {
		if b, ok := e.(*cBinary); ok && b.op == "==>" {
			pre = append(pre, b.x)
			e = b.y
			continue
		}
		break
	}
	q, ok := e.(*cQuant)
	if !ok || !q.forall || len(q.vars) != 1 {
		return
	}
	t, err := g.resolveType(q.vars[0].typ, env.pkg)
	if err != nil || g.sortOf(t) != "Int" {
		return
	}
	g.nfresh++
	hole := fmt.Sprintf("qi!hole!%d", g.nfresh)
	inner := env.with(map[string]val{q.vars[0].name: {hole, t, "Int"}})
	var parts []string
	for _, p := range pre {
		parts = append(parts, env.bool(p))
	}
	if _, isB := t.Underlying().(*types.Basic); isB {
		parts = append(parts, g.wf(hole, t, "", 0))
	}
	body := implies(and(parts...), inner.bool(q.body))
	qa := quantAssumed{guard: guard, hole: hole, body: body}
	g.quantReqs = append(g.quantReqs, qa)
	for _, t := range g.instTerms {
		g.fact(qa.guard, strings.ReplaceAll(qa.body, qa.hole, t))
	}
}

// instantiateAt emits the instances of the recorded clauses at index term t.
func (g *fgen) instantiateAt(t string) {
	if g.instDone == nil {
		g.instDone = map[string]bool{}
	}
	if g.instDone[t] {
		return
	}
	g.instDone[t] = true
	g.instTerms = append(g.instTerms, t)
	for _, qa := range g.quantReqs {
		g.fact(qa.guard, strings.ReplaceAll(qa.body, qa.hole, t))
	}
}
