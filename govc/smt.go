package main

import (
	"fmt"
	"go/constant"
	"go/types"
	"math"
	"math/big"
	"regexp"
	"strings"
)

const prelude = `(set-option :produce-models true)
(set-logic ALL)
(declare-datatypes ((Slice 0)) (((mk_slice (s_arr Int) (s_off Int) (s_len Int) (s_cap Int)))))
(declare-datatypes ((Iface 0)) (((mk_iface (i_dt Int) (i_pl Int)))))
(define-fun wrapu ((x Int) (m Int)) Int (ite (and (<= 0 x) (< x m)) x (ite (and (< x 0) (>= x (- m))) (+ x m) (ite (and (>= x m) (< x (+ m m))) (- x m) (mod x m)))))
(define-fun wraps ((x Int) (m Int) (h Int)) Int (ite (and (<= (- h) x) (< x h)) x (ite (and (<= h x) (< x (+ h m))) (- x m) (ite (and (< x (- h)) (>= x (- (- h) m))) (+ x m) (- (mod (+ x h) m) h)))))
(define-fun addwrap_s ((x Int) (m Int) (h Int)) Int (ite (>= x h) (- x m) (ite (< x (- h)) (+ x m) x)))
(define-fun addwrap_u ((x Int) (m Int)) Int (ite (>= x m) (- x m) (ite (< x 0) (+ x m) x)))
(define-fun tdiv ((x Int) (y Int)) Int (ite (>= x 0) (div x y) (- (div (- x) y))))
(define-fun trem ((x Int) (y Int)) Int (- x (* y (tdiv x y))))
(define-fun imin ((x Int) (y Int)) Int (ite (<= x y) x y))
(define-fun imax ((x Int) (y Int)) Int (ite (>= x y) x y))
(declare-fun bitand (Int Int) Int)
(declare-fun bitor (Int Int) Int)
(declare-fun bitxor (Int Int) Int)
(declare-fun bitandnot (Int Int) Int)
(declare-fun shl (Int Int) Int)
(declare-fun shr (Int Int) Int)
(declare-fun implements (Int Int) Bool)
(declare-fun str2bytes_len (String) Int)
`

var reNonAlnum = regexp.MustCompile(`[^A-Za-z0-9_]`)

func mangle(s string) string {
	s = strings.ReplaceAll(s, modPath+"/", "")
	s = strings.ReplaceAll(s, modPath, "zed")
	s = strings.ReplaceAll(s, "*", "P")
	s = strings.ReplaceAll(s, "[]", "Sl")
	return reNonAlnum.ReplaceAllString(s, "_")
}

func typeName(t types.Type) string {
	return mangle(types.TypeString(t, func(p *types.Package) string { return p.Path() }))
}

// setType is a spec-only type: a mathematical set of elem.
// realType is a spec-only type: mathematical reals (exact values of ints and floats).
type realType struct{}

func (realType) Underlying() types.Type { return realType{} }
func (realType) String() string         { return "real" }

// seqType is a spec-only type: an infinite sequence (total map from int) of elem; its
// length, where one is meant, is a separate ghost integer.
type seqType struct{ elem types.Type }

func (s *seqType) Underlying() types.Type { return s }
func (s *seqType) String() string         { return "seq[" + s.elem.String() + "]" }

type setType struct{ elem types.Type }

func (s *setType) Underlying() types.Type { return s }
func (s *setType) String() string         { return "set[" + s.elem.String() + "]" }

type intInfo struct {
	signed bool
	bits   int
}

func intInfoOf(t types.Type) (intInfo, bool) {
	b, ok := t.Underlying().(*types.Basic)
	if !ok {
		return intInfo{}, false
	}
	switch b.Kind() {
	case types.Int, types.Int64:
		return intInfo{true, 64}, true
	case types.Int32:
		return intInfo{true, 32}, true
	case types.Int16:
		return intInfo{true, 16}, true
	case types.Int8:
		return intInfo{true, 8}, true
	case types.Uint, types.Uint64, types.Uintptr:
		return intInfo{false, 64}, true
	case types.Uint32:
		return intInfo{false, 32}, true
	case types.Uint16:
		return intInfo{false, 16}, true
	case types.Uint8:
		return intInfo{false, 8}, true
	case types.UntypedInt, types.UntypedRune:
		return intInfo{true, 64}, true
	}
	return intInfo{}, false
}

func pow2(n int) string {
	return new(big.Int).Lsh(big.NewInt(1), uint(n)).String()
}

func (ii intInfo) min() string {
	if !ii.signed {
		return "0"
	}
	return "(- " + pow2(ii.bits-1) + ")"
}
func (ii intInfo) max() string {
	if !ii.signed {
		return new(big.Int).Sub(new(big.Int).Lsh(big.NewInt(1), uint(ii.bits)), big.NewInt(1)).String()
	}
	return new(big.Int).Sub(new(big.Int).Lsh(big.NewInt(1), uint(ii.bits-1)), big.NewInt(1)).String()
}

func smtInt(v *big.Int) string {
	if v.Sign() < 0 {
		return "(- " + new(big.Int).Neg(v).String() + ")"
	}
	return v.String()
}

// wrapTerm reduces an arbitrary integer term into the range of ii (exact Go semantics).
func wrapTerm(ii intInfo, t string) string {
	if ii.signed {
		return fmt.Sprintf("(wraps %s %s %s)", t, pow2(ii.bits), pow2(ii.bits-1))
	}
	return fmt.Sprintf("(wrapu %s %s)", t, pow2(ii.bits))
}

// addWrapTerm: t is the sum/difference of two in-range values.
func addWrapTerm(ii intInfo, t string) string {
	if ii.signed {
		return fmt.Sprintf("(addwrap_s %s %s %s)", t, pow2(ii.bits), pow2(ii.bits-1))
	}
	return fmt.Sprintf("(addwrap_u %s %s)", t, pow2(ii.bits))
}

func smtString(s string) string {
	var sb strings.Builder
	sb.WriteByte('"')
	for i := 0; i < len(s); i++ {
		c := s[i]
		if c == '"' {
			sb.WriteString("\"\"")
		} else if c >= 0x20 && c < 0x7f && c != '\\' {
			sb.WriteByte(c)
		} else {
			fmt.Fprintf(&sb, "\\u{%x}", c)
		}
	}
	sb.WriteByte('"')
	return sb.String()
}

// intToFloatTerm converts an integer term (in the range of ii) to a float exactly as
// Go does (round to nearest even), through a 64-bit vector so that solvers bit-blast it
// instead of reasoning over reals.
func intToFloatTerm(ii intInfo, t string, eb, sb int) string {
	if ii.signed {
		return fmt.Sprintf("((_ to_fp %d %d) RNE ((_ int2bv 64) %s))", eb, sb, t)
	}
	return fmt.Sprintf("((_ to_fp_unsigned %d %d) RNE ((_ int2bv 64) %s))", eb, sb, t)
}

// floatToIntTerm: truncation of a float64 that is known to be in the int range.
func floatToIntTerm(ii intInfo, f string) string {
	if ii.signed {
		return fmt.Sprintf("(let ((b!c ((_ fp.to_sbv 64) RTZ %s))) (ite (bvslt b!c #x0000000000000000) (- (bv2nat b!c) 18446744073709551616) (bv2nat b!c)))", f)
	}
	return fmt.Sprintf("(bv2nat ((_ fp.to_ubv 64) RTZ %s))", f)
}

// exactLessIntFloat: i < f for an integer term i (any value in [-2^63, 2^64)) and a
// finite float64 f, decided without reals through a 66-bit signed vector: rounding i to
// float64 is monotone, so fl(i) < f implies i < f, fl(i) > f implies i > f, and
// fl(i) == f means f is an integer of magnitude < 2^65, which the vector represents.
const exactHi = "((_ to_fp 11 53) RNE 36893488147419103232.0)"      // 2^65
const exactLo = "((_ to_fp 11 53) RNE (- 36893488147419103232.0))" // -2^65

func wideIntToFloat(i string) string {
	return fmt.Sprintf("((_ to_fp 11 53) RNE ((_ int2bv 66) %s))", i)
}

func wideFloatToInt(f string) string {
	return fmt.Sprintf("(let ((b!c ((_ fp.to_sbv 66) RTZ %s))) (ite (bvslt b!c (_ bv0 66)) (- (bv2nat b!c) 73786976294838206464) (bv2nat b!c)))", f)
}

func exactLessIntFloat(ii intInfo, i, f string) string {
	fi := wideIntToFloat(i)
	return fmt.Sprintf("(ite (fp.geq %s %s) true (ite (fp.leq %s %s) false (or (fp.lt %s %s) (and (fp.eq %s %s) (< %s %s)))))",
		f, exactHi, f, exactLo, fi, f, fi, f, i, wideFloatToInt(f))
}

// exactLessFloatInt: f < i.
func exactLessFloatInt(ii intInfo, f, i string) string {
	fi := wideIntToFloat(i)
	return fmt.Sprintf("(ite (fp.geq %s %s) false (ite (fp.leq %s %s) true (or (fp.lt %s %s) (and (fp.eq %s %s) (< %s %s)))))",
		f, exactHi, f, exactLo, f, fi, fi, f, wideFloatToInt(f), i)
}

func smtFloat64(f float64) string {
	b := math.Float64bits(f)
	return fmt.Sprintf("(fp #b%01b #b%011b #b%052b)", b>>63, (b>>52)&0x7ff, b&((1<<52)-1))
}

func smtFloat32(f float32) string {
	b := math.Float32bits(f)
	return fmt.Sprintf("(fp #b%01b #b%08b #b%023b)", b>>31, (b>>23)&0xff, b&((1<<23)-1))
}

func constInt(c constant.Value) (*big.Int, bool) {
	if c == nil {
		return nil, false
	}
	switch c.Kind() {
	case constant.Int:
		if v, ok := constant.Val(c).(*big.Int); ok {
			return v, true
		}
		if v, ok := constant.Val(c).(int64); ok {
			return big.NewInt(v), true
		}
	case constant.Float:
		f := constant.ToInt(c)
		if f.Kind() == constant.Int {
			return constInt(f)
		}
	}
	return nil, false
}

func and(xs ...string) string {
	var ys []string
	for _, x := range xs {
		if x == "true" || x == "" {
			continue
		}
		if x == "false" {
			return "false"
		}
		ys = append(ys, x)
	}
	switch len(ys) {
	case 0:
		return "true"
	case 1:
		return ys[0]
	}
	return "(and " + strings.Join(ys, " ") + ")"
}

func or(xs ...string) string {
	var ys []string
	for _, x := range xs {
		if x == "false" || x == "" {
			continue
		}
		if x == "true" {
			return "true"
		}
		ys = append(ys, x)
	}
	switch len(ys) {
	case 0:
		return "false"
	case 1:
		return ys[0]
	}
	return "(or " + strings.Join(ys, " ") + ")"
}

func not(x string) string {
	if x == "true" {
		return "false"
	}
	if x == "false" {
		return "true"
	}
	if strings.HasPrefix(x, "(not ") && strings.HasSuffix(x, ")") && balanced(x[5:len(x)-1]) {
		return x[5 : len(x)-1]
	}
	return "(not " + x + ")"
}

func balanced(s string) bool {
	d := 0
	for i := 0; i < len(s); i++ {
		switch s[i] {
		case '(':
			d++
		case ')':
			d--
			if d < 0 {
				return false
			}
		case '"':
			i++
			for i < len(s) && s[i] != '"' {
				i++
			}
		case ' ':
			if d == 0 {
				return false
			}
		}
	}
	return d == 0
}

func implies(a, b string) string {
	if a == "true" {
		return b
	}
	if b == "true" {
		return "true"
	}
	return "(=> " + a + " " + b + ")"
}
