package main

// Instantiation hints for assumed universally quantified clauses.
//
// A requires clause or loop invariant of the form  forall x int :: P(x)  (possibly
// under an implication) is assumed as a quantified fact, and additionally instantiated
// at every integer term the function uses to index a slice.  The instances are logical
// consequences of the assumed fact, so this only helps the solver (E-matching on index
// arithmetic is brittle); it adds no assumption.

import (
	"fmt"
	"go/types"
	"regexp"
	"strings"
)

type quantAssumed struct {
	guard string // guard under which the clause was assumed
	hole  string // placeholder constant standing for the bound variable
	body  string // instance template (range constraints included)
	sort  string // SMT sort of the bound variable
}

// noteQuantAssumed records an assumed clause if it has the supported shape.
func (g *fgen) noteQuantAssumed(env *cenv, c clause, guard string) {
	defer func() {
		if r := recover(); r != nil {
			if _, ok := r.(transErr); !ok {
				panic(r)
			}
		}
	}()
	var pre []cexpr
	e := c.e
	for {
		if b, ok := e.(*cBinary); ok && b.op == "==>" {
			pre = append(pre, b.x)
			e = b.y
			continue
		}
		break
	}
	q, ok := e.(*cQuant)
	if !ok || !q.forall || len(q.vars) != 1 {
		return
	}
	t, err := g.resolveType(q.vars[0].typ, env.pkg)
	if err != nil {
		return
	}
	srt := g.sortOf(t)
	g.nfresh++
	hole := fmt.Sprintf("q!hole!%d", g.nfresh)
	inner := env.with(map[string]val{q.vars[0].name: {hole, t, srt}})
	var parts []string
	for _, p := range pre {
		parts = append(parts, env.bool(p))
	}
	if _, isB := t.Underlying().(*types.Basic); isB {
		parts = append(parts, g.wf(hole, t, "", 0))
	}
	var qside []string
	inner.qside = &qside
	inner.qbind = append(append([]string{}, env.qbind...), fmt.Sprintf("(%s %s)", hole, srt))
	ib := inner.bool(q.body)
	// loads under the binder are well formed (memory-model invariant): part of every
	// instance
	body := implies(and(parts...), and(append(qside, ib)...))
	qa := quantAssumed{guard: guard, hole: hole, body: body, sort: srt}
	g.quantReqs = append(g.quantReqs, qa)
	if srt == "Int" {
		for _, t := range g.instTerms {
			g.fact(qa.guard, strings.ReplaceAll(qa.body, qa.hole, t))
		}
	}
}

var reGoalForall = regexp.MustCompile(`^\(forall \(\(([A-Za-z0-9_!]+) ([A-Za-z]+)\)\) `)

// skolemizeGoal: a goal of the form (forall ((x S)) body) is proved for a fresh
// constant, and every assumed single-variable universal clause over the same sort is
// instantiated at that constant (logical consequences, emitted as facts).
func (g *fgen) skolemizeGoal(goal string) string {
	m := reGoalForall.FindStringSubmatch(goal)
	if m == nil || !strings.HasSuffix(goal, ")") {
		return goal
	}
	v, srt := m[1], m[2]
	body := goal[len(m[0]) : len(goal)-1]
	if !balanced(body) {
		return goal
	}
	sk := g.fresh("sk", srt)
	body = strings.ReplaceAll(body, v, sk)
	for _, qa := range g.quantReqs {
		if qa.sort == srt {
			g.fact(qa.guard, strings.ReplaceAll(qa.body, qa.hole, sk))
		}
	}
	return body
}

// instantiateAt emits the instances of the recorded clauses at index term t.
func (g *fgen) instantiateAt(t string) {
	if g.instDone == nil {
		g.instDone = map[string]bool{}
	}
	if g.instDone[t] {
		return
	}
	g.instDone[t] = true
	g.instTerms = append(g.instTerms, t)
	for _, qa := range g.quantReqs {
		if qa.sort == "Int" {
			g.fact(qa.guard, strings.ReplaceAll(qa.body, qa.hole, t))
		}
	}
}
