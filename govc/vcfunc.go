package main

import (
	"fmt"
	"go/ast"
	"go/token"
	"go/types"
	"regexp"
	"sort"
	"strings"

	"golang.org/x/tools/go/ssa"
)

func newFgen(w *world, fn *ssa.Function, fc *funcContract) *fgen {
	g := &fgen{w: w, fn: fn, fc: fc,
		declared: map[string]bool{}, heapSort: map[string]string{}, vals: map[ssa.Value]val{}, tuples: map[ssa.Value][]val{},
		locs: map[ssa.Value]*loc{}, guards: map[*ssa.BasicBlock]string{}, out: map[*ssa.BasicBlock]*state{},
		edgeCond: map[[2]int]string{}, epochs: map[int]*epochInfo{}, oblSeq: map[string]int{}, loops: map[*ssa.BasicBlock]*loopInfo{},
		assum: map[string]bool{}, params: map[string]val{}, usedContracts: map[string]bool{}, localNames: map[string][]ssa.Value{}}
	g.curGuard = "true"
	if fn != nil {
		g.pkgPath, g.key = funcKey(fn)
	}
	return g
}

var reDigits = regexp.MustCompile(`^[0-9]+$`)

func isLit(t string) bool { return reDigits.MatchString(t) }

func litPow2Minus1(t string) (int, bool) {
	if !isLit(t) {
		return 0, false
	}
	for k := 1; k <= 64; k++ {
		ii := intInfo{false, k}
		if ii.max() == t {
			return k, true
		}
	}
	return 0, false
}

func (g *fgen) bitop(op, a, b string, ii intInfo, spec bool) string {
	switch op {
	case "&":
		if k, ok := litPow2Minus1(b); ok {
			return fmt.Sprintf("(mod %s %s)", a, pow2(k))
		}
		if k, ok := litPow2Minus1(a); ok {
			return fmt.Sprintf("(mod %s %s)", b, pow2(k))
		}
		return fmt.Sprintf("(bitand %s %s)", a, b)
	case "|":
		return fmt.Sprintf("(bitor %s %s)", a, b)
	case "^":
		return fmt.Sprintf("(bitxor %s %s)", a, b)
	case "&^":
		return fmt.Sprintf("(bitandnot %s %s)", a, b)
	case "<<":
		if isLit(b) {
			var k int
			fmt.Sscan(b, &k)
			if k >= ii.bits && !spec {
				return "0"
			}
			t := fmt.Sprintf("(* %s %s)", a, pow2(k))
			if spec {
				return t
			}
			return wrapTerm(ii, t)
		}
		return fmt.Sprintf("(shl %s %s)", a, b)
	case ">>":
		if isLit(b) {
			var k int
			fmt.Sscan(b, &k)
			return fmt.Sprintf("(div %s %s)", a, pow2(k))
		}
		return fmt.Sprintf("(shr %s %s)", a, b)
	}
	return "0"
}

// ---------- loops / order ----------

func (g *fgen) findLoops() {
	fn := g.fn
	var headers []*ssa.BasicBlock
	for _, b := range fn.Blocks {
		for _, s := range b.Succs {
			if s.Dominates(b) {
				if g.loops[s] == nil {
					g.loops[s] = &loopInfo{header: s, body: map[*ssa.BasicBlock]bool{s: true}}
					headers = append(headers, s)
				}
				// natural loop of back edge b->s
				li := g.loops[s]
				var stack []*ssa.BasicBlock
				if !li.body[b] {
					li.body[b] = true
					stack = append(stack, b)
				}
				for len(stack) > 0 {
					x := stack[len(stack)-1]
					stack = stack[:len(stack)-1]
					for _, p := range x.Preds {
						if !li.body[p] {
							li.body[p] = true
							stack = append(stack, p)
						}
					}
				}
			}
		}
	}
	sort.Slice(headers, func(i, j int) bool { return headers[i].Index < headers[j].Index })
	for i, h := range headers {
		li := g.loops[h]
		li.ordinal = i + 1
		if g.fc != nil {
			li.spec = g.fc.loops[li.ordinal]
			// type invariants (sugar) are carried by every loop of the method
			if len(g.fc.autoLoopInv) > 0 {
				ns := &loopSpec{}
				if li.spec != nil {
					*ns = *li.spec
					ns.invariants = append([]clause{}, li.spec.invariants...)
				}
				for k, c := range g.fc.autoLoopInv {
					c.label = fmt.Sprintf("loop%d-typeinv:%d", li.ordinal, k+1)
					ns.invariants = append(ns.invariants, c)
				}
				li.spec = ns
			}
		}
		ms := newModset()
		kg := g.w.keygen()
		for b := range li.body {
			for _, in := range b.Instrs {
				g.w.instrMods(kg, in, ms)
			}
		}
		li.mods = ms
	}
}

func (g *fgen) isBackEdge(from, to *ssa.BasicBlock) bool {
	li := g.loops[to]
	return li != nil && li.body[from] && to.Dominates(from)
}

func (g *fgen) rpo() []*ssa.BasicBlock {
	seen := map[*ssa.BasicBlock]bool{}
	var post []*ssa.BasicBlock
	var dfs func(b *ssa.BasicBlock)
	dfs = func(b *ssa.BasicBlock) {
		seen[b] = true
		for _, s := range b.Succs {
			if !seen[s] && !g.isBackEdge(b, s) {
				dfs(s)
			}
		}
		post = append(post, b)
	}
	dfs(g.fn.Blocks[0])
	for i, j := 0, len(post)-1; i < j; i, j = i+1, j-1 {
		post[i], post[j] = post[j], post[i]
	}
	return post
}

// ---------- environment for contract clauses ----------

func (g *fgen) clauseEnv(st *state, at *ssa.BasicBlock, phiOverride map[*ssa.Phi]string) *cenv {
	nq := new(int)
	var pkg *types.Package
	if g.fn.Pkg != nil {
		pkg = g.fn.Pkg.Pkg
	} else if g.fn.Parent() != nil && g.fn.Parent().Pkg != nil {
		pkg = g.fn.Parent().Pkg.Pkg
	}
	e := &cenv{g: g, st: st, old: g.entry, vars: map[string]val{}, pkg: pkg, nq: nq}
	for k, v := range g.params {
		e.vars[k] = v
	}
	e.local = func(name string) (val, bool) { return g.localVar(name, st, at, phiOverride) }
	if at != nil && g.loops[at] != nil {
		e.loopVar = func(name string) (val, bool) {
			if _, isParam := g.params[name]; !isParam {
				return val{}, false
			}
			return g.phiVar(name, at, phiOverride)
		}
	}
	return e
}

// phiVar: the header phi (of this loop or an enclosing one) for source variable name.
func (g *fgen) phiVar(name string, at *ssa.BasicBlock, phiOverride map[*ssa.Phi]string) (val, bool) {
	for b := at; b != nil; b = b.Idom() {
		for _, in := range b.Instrs {
			phi, ok := in.(*ssa.Phi)
			if !ok {
				break
			}
			if phi.Comment == name {
				if phiOverride != nil {
					if t, ok := phiOverride[phi]; ok {
						return val{t, phi.Type(), g.sortOf(phi.Type())}, true
					}
				}
				if v, ok := g.vals[phi]; ok {
					return v, true
				}
			}
		}
	}
	return val{}, false
}

// localVar resolves a source-level local variable name at block `at`.
func (g *fgen) localVar(name string, st *state, at *ssa.BasicBlock, phiOverride map[*ssa.Phi]string) (val, bool) {
	// free variables of closures
	for _, fv := range g.fn.FreeVars {
		if fv.Name() == name {
			p := g.get(fv)
			et := fv.Type().Underlying().(*types.Pointer).Elem()
			l := g.ptrLoc(p.t, et)
			return val{g.load(st, l), et, g.sortOf(et)}, true
		}
	}
	if at == nil {
		return val{}, false
	}
	// phis at the loop header (or dominating headers)
	for b := at; b != nil; b = b.Idom() {
		for _, in := range b.Instrs {
			phi, ok := in.(*ssa.Phi)
			if !ok {
				break
			}
			if phi.Comment == name {
				if phiOverride != nil {
					if t, ok := phiOverride[phi]; ok {
						return val{t, phi.Type(), g.sortOf(phi.Type())}, true
					}
				}
				if v, ok := g.vals[phi]; ok {
					return v, true
				}
			}
		}
	}
	// a variable that lives in a cell (escaping or address-taken local): its current
	// value is what the cell holds, not the value a definition once gave it
	var cell *ssa.Alloc
	for _, b := range g.fn.Blocks {
		if !(b == at || b.Dominates(at)) {
			continue
		}
		for _, in := range b.Instrs {
			if a, ok := in.(*ssa.Alloc); ok && a.Comment == name {
				if _, seen := g.vals[a]; !seen {
					continue
				}
				if cell == nil || cell.Block().Dominates(b) {
					cell = a
				}
			}
		}
	}
	if cell != nil {
		if l := g.locOf(cell); l != nil {
			return val{g.load(st, l), l.typ, g.sortOf(l.typ)}, true
		}
	}
	// DebugRefs
	var best ssa.Value
	var bestAddr bool
	for _, b := range g.fn.Blocks {
		for _, in := range b.Instrs {
			dr, ok := in.(*ssa.DebugRef)
			if !ok {
				continue
			}
			id, ok := dr.Expr.(*ast.Ident)
			if !ok || id.Name != name {
				continue
			}
			var defBlock *ssa.BasicBlock
			if vi, ok := dr.X.(ssa.Instruction); ok {
				defBlock = vi.Block()
			}
			if defBlock != nil && !(defBlock == at || defBlock.Dominates(at)) {
				continue
			}
			if _, isPhi := dr.X.(*ssa.Phi); isPhi && defBlock == at {
				// handled above
			}
			if best == nil {
				best, bestAddr = dr.X, dr.IsAddr
				continue
			}
			if best == dr.X {
				continue
			}
			// prefer the definition closest to `at`
			var bb *ssa.BasicBlock
			if bi, ok := best.(ssa.Instruction); ok {
				bb = bi.Block()
			}
			if bb == nil || (defBlock != nil && bb.Dominates(defBlock)) {
				best, bestAddr = dr.X, dr.IsAddr
			}
		}
	}
	if best == nil {
		return val{}, false
	}
	if bestAddr {
		l := g.locOf(best)
		if l == nil {
			return val{}, false
		}
		return val{g.load(st, l), l.typ, g.sortOf(l.typ)}, true
	}
	if phi, ok := best.(*ssa.Phi); ok && phiOverride != nil {
		if t, ok := phiOverride[phi]; ok {
			return val{t, phi.Type(), g.sortOf(phi.Type())}, true
		}
	}
	if _, ok := g.vals[best]; !ok {
		if _, isC := best.(*ssa.Const); !isC {
			return val{}, false
		}
	}
	return g.get(best), true
}

// ---------- addresses ----------

func (g *fgen) locOf(v ssa.Value) *loc {
	if l, ok := g.locs[v]; ok {
		return l
	}
	if gl, ok := v.(*ssa.Global); ok {
		et := gl.Type().Underlying().(*types.Pointer).Elem()
		name := gl.Name()
		if gl.Pkg != nil {
			name = gl.Pkg.Pkg.Path() + "." + gl.Name()
		}
		l := &loc{root: rootGlobal, rootT: mangle(name), typ: et}
		g.locs[v] = l
		return l
	}
	p, ok := v.Type().Underlying().(*types.Pointer)
	if !ok {
		return nil
	}
	pv := g.get(v)
	if a, ok := p.Elem().Underlying().(*types.Array); ok {
		return &loc{root: rootElem, rootT: g.elemKeyName(a.Elem()), base: pv.t, idx: "", typ: p.Elem()}
	}
	return g.ptrLoc(pv.t, p.Elem())
}

func (g *fgen) nilCheck(v ssa.Value, pos token.Pos, what string) {
	if _, ok := g.locs[v]; ok {
		return
	}
	switch v.(type) {
	case *ssa.Alloc, *ssa.Global:
		return
	}
	pv := g.get(v)
	g.oblige("nilptr", g.siteLabel(pos, what), fmt.Sprintf("(not (= %s 0))", pv.t), pos)
}

func (g *fgen) siteLabel(pos token.Pos, fallback string) string {
	s := g.w.nodeTextAt(g.fn, pos)
	if s == "" {
		s = fallback
	}
	return s
}

// ---------- main entry ----------

type funcResult struct {
	fn      string
	key     string
	pkgPath string
	obls    []*obligation
	oos     []string
	errs    []string
	assum   []string
	used    []string
	loops   int
	nblocks int
}

func (w *world) verifyFunc(fn *ssa.Function, fc *funcContract) (res *funcResult) {
	g := newFgen(w, fn, fc)
	res = &funcResult{fn: shortPkg(g.pkgPath) + "." + g.key, key: g.key, pkgPath: g.pkgPath}
	defer func() {
		if r := recover(); r != nil {
			if te, ok := r.(transErr); ok {
				res.errs = append(res.errs, string(te))
				return
			}
			panic(r)
		}
	}()
	if fn.Blocks == nil {
		res.errs = append(res.errs, "no body")
		return res
	}
	g.run()
	res.obls = g.obls
	res.oos = g.oos
	res.nblocks = len(fn.Blocks)
	res.loops = len(g.loops)
	for a := range g.assum {
		res.assum = append(res.assum, a)
	}
	sort.Strings(res.assum)
	for u := range g.usedContracts {
		res.used = append(res.used, u)
	}
	sort.Strings(res.used)
	return res
}

func (g *fgen) bindParams() {
	fn, fc := g.fn, g.fc
	pkg := fn.Pkg.Pkg
	_ = pkg
	st := g.entry
	i := 0
	names := []string{}
	if fn.Signature.Recv() != nil {
		names = append(names, fc.recvName)
	}
	for _, p := range fc.params {
		names = append(names, p.name)
	}
	if len(names) != len(fn.Params) {
		panic(transErr(fmt.Sprintf("%s: contract header has %d params (incl. receiver), function has %d", fc.where, len(names), len(fn.Params))))
	}
	for _, p := range fn.Params {
		srt := g.sortOf(p.Type())
		n := "p_" + p.Name()
		g.declare(n, srt)
		g.fact("true", g.wf(n, p.Type(), st.alloc, 0))
		v := val{n, p.Type(), srt}
		g.vals[p] = v
		g.params[names[i]] = v
		if names[i] != p.Name() {
			g.params[p.Name()] = v
		}
		i++
	}
	if fn.Signature.Recv() != nil && len(fn.Params) > 0 && !(g.fc != nil && g.fc.nilRecvOK) {
		if _, ok := fn.Params[0].Type().Underlying().(*types.Pointer); ok {
			g.fact("true", fmt.Sprintf("(not (= %s 0))", g.vals[fn.Params[0]].t))
		}
	}
	for _, fv := range fn.FreeVars {
		srt := g.sortOf(fv.Type())
		n := "fv_" + fv.Name()
		g.declare(n, srt)
		g.fact("true", fmt.Sprintf("(and (< 0 %s) (<= %s %s))", n, n, st.alloc))
		g.vals[fv] = val{n, fv.Type(), srt}
		// the cell of a captured variable belongs to the enclosing function: callees
		// other than sibling closures cannot write it (assumption, listed)
		if pt, ok := fv.Type().Underlying().(*types.Pointer); ok {
			l := g.ptrLoc(n, pt.Elem())
			if _, isArr := g.wholeArray(l); !isArr {
				var keys []string
				g.leafKeysOf(l, l.path, l.typ, &keys)
				g.stackLocals = append(g.stackLocals, stackLocal{ref: n, keys: keys, captured: true})
				g.assum["captured variables of "+g.key+" are not written by callees other than closures"] = true
			}
		}
	}
}

func (g *fgen) run() {
	fn, fc := g.fn, g.fc
	g.declare("alloc0", "Int")
	g.fact("true", "(<= 0 alloc0)")
	g.entry = &state{heap: map[string]string{}, epoch: 0, alloc: "alloc0"}
	g.bindParams()
	g.findLoops()
	g.findLocalArrays()
	g.setupGinvs()
	g.setupGuards()
	g.assumeGinvs(g.entry)
	g.assumeAxioms()
	// requires
	env := g.clauseEnv(g.entry, nil, nil)
	for _, c := range fc.witnesses {
		v, err := env.safeTr(c)
		if err != nil {
			panic(transErr(err.Error()))
		}
		g.witTerms = append(g.witTerms, v)
	}
	for _, c := range fc.requires {
		t, err := env.safeBool(c)
		if err != nil {
			panic(transErr(err.Error()))
		}
		g.fact("true", t)
		g.noteQuantAssumed(env, c, "true")
	}
	if fc.hasMod {
		g.precise = g.preciseLocs(fc, g.clauseEnv(g.entry, nil, nil))
	}
	// cover: the precondition is satisfiable
	g.curGuard = "true"
	g.cover("pre", "true")

	order := g.rpo()
	for _, b := range order {
		g.block(b)
	}
	if len(g.retGuards) > 0 {
		g.curGuard = "true"
		g.cover("return", or(g.retGuards...))
	}
	// declared-modifies check (coarse, by heap key)
	if fc.hasMod && !fc.trusted {
		ms := g.w.modsetOf(fn)
		declared := newModset()
		g.w.declMods(g.w.keygen(), fc, declared)
		if !declared.all {
			if ms.all {
				g.curGuard = "true"
				g.obligeStatic("frame", "inferred-all", false, "function may modify anything ("+ms.why+") but declares a modifies clause")
			} else {
				var extra []string
				for _, k := range sortedKeys(ms.any) {
					if _, ok := declared.any[k]; !ok && !declared.coarse(k) {
						extra = append(extra, k)
					}
				}
				sort.Strings(extra)
				g.obligeStatic("frame", "declared", len(extra) == 0, "writes outside modifies: "+strings.Join(extra, ","))
			}
		}
	}
}

func (g *fgen) obligeStatic(kind, label string, ok bool, why string) {
	goal := "true"
	if !ok {
		goal = "false"
	}
	g.curGuard = "true"
	g.oblige(kind, label, goal, token.NoPos)
	g.obls[len(g.obls)-1].src = why
}

func (g *fgen) cover(label, cond string) {
	o := &obligation{name: fmt.Sprintf("%s.%s#cover:%s", shortPkg(g.pkgPath), g.key, label), fn: shortPkg(g.pkgPath) + "." + g.key,
		kind: "cover", goal: "true", guard: cond, nlines: len(g.lines), gen: g, expect: "sat"}
	g.obls = append(g.obls, o)
}

// ---------- blocks ----------

func (g *fgen) edgeGuard(from, to *ssa.BasicBlock) string {
	bg := g.guards[from]
	if c, ok := g.edgeCond[[2]int{from.Index, to.Index}]; ok {
		return and(bg, c)
	}
	return bg
}

type inEdge struct {
	from  *ssa.BasicBlock
	idx   int // index in b.Preds
	guard string
}

func (g *fgen) mergeStates(edges []inEdge, label string) *state {
	if len(edges) == 1 {
		return g.out[edges[0].from].clone()
	}
	first := g.out[edges[0].from]
	same := true
	for _, e := range edges[1:] {
		s := g.out[e.from]
		if s.epoch != first.epoch || s.alloc != first.alloc || len(s.heap) != len(first.heap) {
			same = false
			break
		}
		for _, k := range sortedKeys(first.heap) {
			v := first.heap[k]
			if s.heap[k] != v {
				same = false
				break
			}
		}
	}
	if same {
		return first.clone()
	}
	// new merge epoch
	var preds []epochPred
	for _, e := range edges {
		preds = append(preds, epochPred{e.guard, g.out[e.from]})
	}
	ep := g.newEpoch(preds)
	st := &state{heap: map[string]string{}, epoch: ep}
	// alloc
	allocSame := true
	for _, e := range edges[1:] {
		if g.out[e.from].alloc != first.alloc {
			allocSame = false
		}
	}
	if allocSame {
		st.alloc = first.alloc
	} else {
		na := g.fresh("alloc", "Int")
		for _, e := range edges {
			g.fact(e.guard, fmt.Sprintf("(= %s %s)", na, g.out[e.from].alloc))
		}
		st.alloc = na
	}
	return st
}

func (g *fgen) block(b *ssa.BasicBlock) {
	g.curBlock = b
	var edges []inEdge
	var backEdges []inEdge
	for i, p := range b.Preds {
		if _, done := g.out[p]; !done {
			if g.isBackEdge(p, b) {
				backEdges = append(backEdges, inEdge{p, i, ""})
			}
			continue
		}
		if g.isBackEdge(p, b) {
			backEdges = append(backEdges, inEdge{p, i, ""})
			continue
		}
		edges = append(edges, inEdge{p, i, g.edgeGuard(p, b)})
	}
	var st *state
	if b.Index == 0 {
		st = g.entry.clone()
		g.guards[b] = "true"
	} else {
		if len(edges) == 0 {
			// unreachable
			g.guards[b] = "false"
			g.out[b] = g.entry.clone()
			// still need values for instructions? skip entirely
			return
		}
		var gs []string
		for _, e := range edges {
			gs = append(gs, e.guard)
		}
		gn := fmt.Sprintf("g_b%d", b.Index)
		g.declare(gn, "Bool")
		g.fact("true", fmt.Sprintf("(= %s %s)", gn, or(gs...)))
		g.guards[b] = gn
		st = g.mergeStates(edges, "")
	}
	g.curGuard = g.guards[b]

	li := g.loops[b]
	// phis
	phiEntry := map[*ssa.Phi]string{}
	var phis []*ssa.Phi
	for _, in := range b.Instrs {
		phi, ok := in.(*ssa.Phi)
		if !ok {
			break
		}
		phis = append(phis, phi)
		// value from (non-back) edges
		var t string
		for k := len(edges) - 1; k >= 0; k-- {
			e := edges[k]
			ev := g.get(phi.Edges[e.idx])
			if t == "" {
				t = ev.t
			} else {
				t = fmt.Sprintf("(ite %s %s %s)", e.guard, ev.t, t)
			}
		}
		phiEntry[phi] = t
	}
	if li == nil {
		for _, phi := range phis {
			g.define(phi, phiEntry[phi])
		}
	} else {
		// loop header: assert invariant on entry, havoc, assume invariant
		if li.spec != nil {
			env := g.clauseEnv(st, b, phiEntry)
			for _, c := range li.spec.invariants {
				t, err := env.safeBool(c)
				if err != nil {
					panic(transErr(err.Error()))
				}
				g.oblige("inv-entry", c.label, t, token.NoPos)
				g.obls[len(g.obls)-1].src = c.src
			}
		}
		g.assertGinvs(st, "ginv-loop-entry", fmt.Sprintf("loop%d", li.ordinal), token.NoPos)
		{
			lm := *li.mods
			lm.allocs = true
			before := st.clone()
			g.applyModset(&lm, st, fmt.Sprintf("loop %d", li.ordinal))
			g.restoreLoopLocals(li, before, st)
		}
		li.phiVals = map[*ssa.Phi]string{}
		for _, phi := range phis {
			v := g.defineUnknown(phi, st)
			li.phiVals[phi] = v.t
			if allEdgesAlloc(phi, map[*ssa.Phi]bool{}) {
				// the cell of a per-iteration variable: always a fresh allocation
				g.fact("true", fmt.Sprintf("(not (= %s 0))", v.t))
			}
			if phi.Comment == "rangeindex" && len(phi.Edges) >= 2 {
				// hidden index of a `range` loop: starts at -1, stepped by +1 while < len
				if c, ok := phi.Edges[0].(*ssa.Const); ok && c.Value != nil && c.Value.ExactString() == "-1" {
					// ... and every completed iteration passed `index+1 < limit <= MaxInt`
					g.fact("true", fmt.Sprintf("(and (>= %s (- 1)) (< %s 9223372036854775807))", v.t, v.t))
				}
			}
		}
		g.assumeGinvs(st)
		if li.spec != nil {
			env := g.clauseEnv(st, b, nil)
			for _, c := range li.spec.invariants {
				t, err := env.safeBool(c)
				if err != nil {
					panic(transErr(err.Error()))
				}
				g.fact(g.curGuard, t)
				g.noteQuantAssumed(env, c, g.curGuard)
			}
			if li.spec.decreases != nil {
				v, err := env.safeTr(*li.spec.decreases)
				if err != nil {
					panic(transErr(err.Error()))
				}
				d := g.fresh("dec", "Int")
				g.fact("true", fmt.Sprintf("(= %s %s)", d, v.t))
				li.decAtHead = d
			}
		}
	}
	for _, in := range b.Instrs {
		if _, ok := in.(*ssa.Phi); ok {
			continue
		}
		g.instr(in, st)
	}
	g.out[b] = st
	// back edges leaving this block
	for _, s := range b.Succs {
		if g.isBackEdge(b, s) {
			g.backEdge(b, s, st)
		}
	}
}

func (g *fgen) backEdge(from, hdr *ssa.BasicBlock, st *state) {
	li := g.loops[hdr]
	eg := g.edgeGuard(from, hdr)
	saved := g.curGuard
	g.curGuard = eg
	defer func() { g.curGuard = saved }()
	g.assertGinvs(st, "ginv-loop-step", fmt.Sprintf("loop%d", li.ordinal), token.NoPos)
	if li.spec == nil {
		return
	}
	idx := -1
	for i, p := range hdr.Preds {
		if p == from {
			idx = i
		}
	}
	over := map[*ssa.Phi]string{}
	for _, in := range hdr.Instrs {
		phi, ok := in.(*ssa.Phi)
		if !ok {
			break
		}
		over[phi] = g.get(phi.Edges[idx]).t
	}
	env := g.clauseEnv(st, hdr, over)
	for _, c := range li.spec.invariants {
		t, err := env.safeBool(c)
		if err != nil {
			panic(transErr(err.Error()))
		}
		g.oblige("inv-step", c.label, t, token.NoPos)
		g.obls[len(g.obls)-1].src = c.src
	}
	if li.spec.decreases != nil {
		v, err := env.safeTr(*li.spec.decreases)
		if err != nil {
			panic(transErr(err.Error()))
		}
		g.oblige("decreases", li.spec.decreases.label, fmt.Sprintf("(and (<= 0 %s) (< %s %s))", li.decAtHead, v.t, li.decAtHead), token.NoPos)
	}
}

// ---------- instructions ----------

func (g *fgen) instr(in ssa.Instruction, st *state) {
	switch x := in.(type) {
	case *ssa.DebugRef:
	case *ssa.Alloc:
		g.alloc(x, st)
	case *ssa.BinOp:
		g.binop(x, st)
	case *ssa.UnOp:
		g.unop(x, st)
	case *ssa.Call:
		rs := g.call(x, st)
		g.bindCallResult(x, rs, st)
	case *ssa.ChangeInterface:
		g.define(x, g.get(x.X).t)
	case *ssa.ChangeType:
		g.define(x, g.get(x.X).t)
	case *ssa.Convert:
		g.convert(x, st)
	case *ssa.Extract:
		tup := g.tuples[x.Tuple]
		if tup == nil || x.Index >= len(tup) {
			g.unsupported("extract from unknown tuple %s", x.Tuple.Name())
			g.defineUnknown(x, st)
			return
		}
		g.vals[x] = tup[x.Index]
	case *ssa.Field:
		v := g.get(x.X)
		s := x.X.Type().Underlying().(*types.Struct)
		srt := g.structSort(x.X.Type(), s)
		g.define(x, fmt.Sprintf("(%s_f%d %s)", srt, x.Field, v.t))
	case *ssa.FieldAddr:
		g.fieldAddr(x)
	case *ssa.Index:
		v := g.get(x.X)
		i := g.get(x.Index)
		switch u := x.X.Type().Underlying().(type) {
		case *types.Array:
			g.oblige("idx", g.siteLabel(x.Pos(), "index"), fmt.Sprintf("(and (<= 0 %s) (< %s %d))", i.t, i.t, u.Len()), x.Pos())
			g.define(x, g.arrGet(u, v.t, i.t))
		case *types.Basic: // string
			g.oblige("idx", g.siteLabel(x.Pos(), "index"), fmt.Sprintf("(and (<= 0 %s) (< %s (str.len %s)))", i.t, i.t, v.t), x.Pos())
			r := g.define(x, fmt.Sprintf("(str.to_code (str.at %s %s))", v.t, i.t))
			g.fact(g.curGuard, fmt.Sprintf("(and (<= 0 %s) (<= %s 255))", r.t, r.t))
		default:
			g.unsupported("Index on %s", x.X.Type())
			g.defineUnknown(x, st)
		}
	case *ssa.IndexAddr:
		g.indexAddr(x)
	case *ssa.Lookup:
		g.lookup(x, st)
	case *ssa.MakeInterface:
		g.define(x, g.makeIface(st, g.curGuard, g.get(x.X)))
	case *ssa.MakeSlice:
		g.makeSlice(x, st)
	case *ssa.MakeMap:
		r := g.allocRef(st)
		mt := x.Type().Underlying().(*types.Map)
		hk, _, lk := g.mapKeys(mt)
		ks := g.sortOf(mt.Key())
		nh := g.fresh("H_"+hk, g.heapSort[hk])
		g.fact("true", fmt.Sprintf("(= %s (store %s %s ((as const (Array %s Bool)) false)))", nh, g.read(st, hk), r, ks))
		st.heap[hk] = nh
		nl := g.fresh("H_"+lk, g.heapSort[lk])
		g.fact("true", fmt.Sprintf("(= %s (store %s %s 0))", nl, g.read(st, lk), r))
		st.heap[lk] = nl
		g.define(x, r)
	case *ssa.MakeClosure:
		r := g.allocRef(st)
		g.define(x, r)
		g.closurePre(x, st)
	case *ssa.MapUpdate:
		g.mapUpdate(x, st)
	case *ssa.Phi:
	case *ssa.Slice:
		g.sliceOp(x, st)
	case *ssa.Store:
		g.nilCheck(x.Addr, x.Pos(), "store")
		l := g.locOf(x.Addr)
		if l == nil {
			g.unsupported("store through %s", x.Addr.Name())
			return
		}
		g.guardCheck(st, l, true, x.Pos())
		g.store(st, l, g.get(x.Val).t)
	case *ssa.TypeAssert:
		g.typeAssert(x, st)
	case *ssa.Range:
		g.vals[x] = g.get(x.X)
	case *ssa.Next:
		g.next(x, st)
	case *ssa.If:
		c := g.get(x.Cond).t
		b := x.Block()
		g.edgeCond[[2]int{b.Index, b.Succs[0].Index}] = c
		g.edgeCond[[2]int{b.Index, b.Succs[1].Index}] = not(c)
		if b.Succs[0] == b.Succs[1] {
			delete(g.edgeCond, [2]int{b.Index, b.Succs[0].Index})
		}
	case *ssa.Jump:
	case *ssa.Return:
		g.ret(x, st)
	case *ssa.Panic:
		g.panicInstr(x, st)
	case *ssa.Defer:
		for _, li := range g.loops {
			if li.body[x.Block()] {
				g.unsupported("defer inside a loop")
			}
		}
		g.defers = append(g.defers, x)
		if g.deferGuard == nil {
			g.deferGuard = map[*ssa.Defer]string{}
		}
		g.deferGuard[x] = g.curGuard
	case *ssa.RunDefers:
		for i := len(g.defers) - 1; i >= 0; i-- {
			d := g.defers[i]
			rb := x.Block()
			if d.Block() == rb || d.Block().Dominates(rb) {
				g.call(d, st)
				continue
			}
			// conditional defer: executed iff the path went through the defer's block
			dg := g.deferGuard[d]
			if dg == "" {
				continue // defer in a block not yet processed cannot reach here
			}
			saved := g.curGuard
			st0 := st.clone()
			st1 := st.clone()
			g.curGuard = and(saved, dg)
			g.call(d, st1)
			g.curGuard = saved
			ep := g.newEpoch([]epochPred{{dg, st1}, {not(dg), st0}})
			st.heap = map[string]string{}
			st.epoch = ep
			if st1.alloc != st0.alloc {
				na := g.fresh("alloc", "Int")
				g.fact(dg, fmt.Sprintf("(= %s %s)", na, st1.alloc))
				g.fact(not(dg), fmt.Sprintf("(= %s %s)", na, st0.alloc))
				st.alloc = na
			}
		}
	case *ssa.Go:
		if g.fc != nil && g.fc.goSync {
			g.call(x, st)
			g.assum["go statements of "+g.key+" are modelled as synchronous calls (go-sync): the goroutine is assumed joined before its effects are observed, interference after the statement is not modelled"] = true
		} else {
			g.unsupported("go statement")
		}
	case *ssa.Send:
		g.unsupported("channel send")
	case *ssa.Select:
		g.unsupported("select")
		g.tuples[x] = nil
	case *ssa.MakeChan:
		g.unsupported("make chan")
		g.defineUnknown(x, st)
	case *ssa.SliceToArrayPointer, *ssa.MultiConvert:
		g.unsupported("%T", x)
		if v, ok := in.(ssa.Value); ok {
			g.defineUnknown(v, st)
		}
	default:
		g.unsupported("instruction %T", in)
		if v, ok := in.(ssa.Value); ok {
			g.defineUnknown(v, st)
		}
	}
}

func (g *fgen) alloc(x *ssa.Alloc, st *state) {
	et := x.Type().Underlying().(*types.Pointer).Elem()
	r := g.allocRef(st)
	g.vals[x] = val{r, x.Type(), "Int"}
	if a, ok := et.Underlying().(*types.Array); ok {
		// array object in the element heap
		if _, isS := isStructVal(a.Elem()); isS {
			l := &loc{root: rootElem, rootT: g.elemKeyName(a.Elem()), base: r, idx: "0", typ: a.Elem()}
			var keys []string
			g.leafKeysOf(l, nil, a.Elem(), &keys)
			// zero by const arrays per leaf
			g.zeroElemLeaves(st, l, nil, a.Elem(), r)
		} else {
			l := &loc{root: rootElem, rootT: g.elemKeyName(a.Elem()), base: r, idx: "", typ: et}
			k := g.leafKey(l, nil, a.Elem())
			h := g.read(st, k)
			nh := g.fresh("H_"+k, g.heapSort[k])
			g.fact("true", fmt.Sprintf("(= %s (store %s %s ((as const (Array Int %s)) %s)))", nh, h, r, g.sortOf(a.Elem()), g.zero(a.Elem())))
			st.heap[k] = nh
		}
		return
	}
	l := g.ptrLoc(r, et)
	if _, isS := isStructVal(et); !isS {
		g.locs[x] = l
	}
	g.store(st, l, g.zero(et))
	if !allocEscapes(x) {
		// a local whose address never leaves this function: callees cannot write it
		var keys []string
		g.leafKeysOf(l, l.path, l.typ, &keys)
		g.stackLocals = append(g.stackLocals, stackLocal{ref: r, keys: keys})
	} else if capturedOnly(x) {
		// a local that escapes only into closures that this function invokes directly
		// (call / go / defer): callees other than closures cannot write it
		var keys []string
		g.leafKeysOf(l, l.path, l.typ, &keys)
		g.stackLocals = append(g.stackLocals, stackLocal{ref: r, keys: keys, captured: closuresWrite(x)})
	}
}

// closuresWrite: some closure binding the alloc does more with it than load it.
func closuresWrite(a *ssa.Alloc) bool {
	refs := a.Referrers()
	if refs == nil {
		return true
	}
	for _, in := range *refs {
		mc, ok := in.(*ssa.MakeClosure)
		if !ok {
			continue
		}
		fn, ok := mc.Fn.(*ssa.Function)
		if !ok {
			return true
		}
		for i, b := range mc.Bindings {
			if b != ssa.Value(a) || i >= len(fn.FreeVars) {
				continue
			}
			fr := fn.FreeVars[i].Referrers()
			if fr == nil {
				return true
			}
			for _, u := range *fr {
				switch x := u.(type) {
				case *ssa.DebugRef:
				case *ssa.UnOp:
					if x.Op != token.MUL {
						return true
					}
				default:
					return true
				}
			}
		}
	}
	return false
}

// closureOnlyLoads: the closure made by mc uses the captured cell a only to load from it.
func closureOnlyLoads(mc *ssa.MakeClosure, a *ssa.Alloc) bool {
	fn, ok := mc.Fn.(*ssa.Function)
	if !ok {
		return false
	}
	for i, b := range mc.Bindings {
		if b != ssa.Value(a) {
			continue
		}
		if i >= len(fn.FreeVars) {
			return false
		}
		fr := fn.FreeVars[i].Referrers()
		if fr == nil {
			return false
		}
		for _, u := range *fr {
			switch x := u.(type) {
			case *ssa.DebugRef:
			case *ssa.UnOp:
				if x.Op != token.MUL {
					return false
				}
			default:
				return false
			}
		}
	}
	return true
}

// capturedOnly: every use of the alloc is a load, a store into it, or a binding of a
// closure whose only uses are as the callee of a call, go or defer statement.
func capturedOnly(a *ssa.Alloc) bool {
	refs := a.Referrers()
	if refs == nil {
		return false
	}
	for _, in := range *refs {
		switch u := in.(type) {
		case *ssa.DebugRef:
		case *ssa.UnOp:
			if u.Op != token.MUL {
				return false
			}
		case *ssa.Store:
			if u.Val == ssa.Value(a) {
				return false
			}
		case *ssa.MakeClosure:
			if closureOnlyLoads(u, a) {
				// the closure can do nothing with the variable but read it: however the
				// closure value is used (passed on, stored), nobody else can write the cell
				continue
			}
			cr := u.Referrers()
			if cr == nil {
				return false
			}
			for _, ci := range *cr {
				switch c := ci.(type) {
				case *ssa.DebugRef:
				case ssa.CallInstruction:
					if c.Common().Value != ssa.Value(u) {
						return false
					}
					for _, arg := range c.Common().Args {
						if arg == ssa.Value(u) {
							return false
						}
					}
				default:
					return false
				}
			}
		default:
			return false
		}
	}
	return true
}

// restoreLoopLocals: at a loop head everything the loop may write is havocked; the cells
// of non-escaping locals and captured variables that the loop body does not store to
// itself (only callees could, and they cannot) keep their values.
func (g *fgen) restoreLoopLocals(li *loopInfo, before, st *state) {
	if len(g.stackLocals) == 0 {
		return
	}
	direct := map[string]bool{}
	closureCall := false
	kg := g.w.keygen()
	ms := newModset()
	for b := range li.body {
		for _, in := range b.Instrs {
			switch x := in.(type) {
			case *ssa.Store, *ssa.MapUpdate:
				g.w.instrMods(kg, in, ms)
			case ssa.CallInstruction:
				c := x.Common()
				if !c.IsInvoke() {
					if _, isB := c.Value.(*ssa.Builtin); isB {
						// append/copy write element heaps, not variable cells
						continue
					}
					callee := c.StaticCallee()
					if callee == nil || callee.Parent() != nil {
						closureCall = true
					}
				}
			}
		}
	}
	for _, k := range sortedKeys(ms.any) {
		direct[k] = true
	}
	for _, k := range sortedKeys(ms.fresh) {
		direct[k] = true
	}
	if ms.all {
		return
	}
	for _, sl := range g.stackLocals {
		if sl.captured && closureCall {
			continue
		}
		for _, k := range sl.keys {
			if direct[k] || strings.HasPrefix(k, "G_") {
				continue
			}
			old := g.read(before, k)
			cur := g.read(st, k)
			if old == cur {
				continue
			}
			n := g.fresh("H_"+k, g.heapSort[k])
			g.fact("true", fmt.Sprintf("(= %s (store %s %s (select %s %s)))", n, cur, sl.ref, old, sl.ref))
			st.heap[k] = n
		}
	}
}

// closurePre: when a closure with a contract is created, the preconditions that speak
// only about captured state (not about the closure's own parameters) must hold.
func (g *fgen) closurePre(x *ssa.MakeClosure, st *state) {
	fn, ok := x.Fn.(*ssa.Function)
	if !ok {
		return
	}
	fc := g.w.contractFor(fn)
	if fc == nil {
		return
	}
	vars := map[string]val{}
	for i, fv := range fn.FreeVars {
		if i >= len(x.Bindings) {
			break
		}
		b := x.Bindings[i]
		pt, isP := fv.Type().Underlying().(*types.Pointer)
		if !isP {
			vars[fv.Name()] = g.get(b)
			continue
		}
		l := g.locOf(b)
		if l == nil {
			continue
		}
		vars[fv.Name()] = val{g.load(st, l), pt.Elem(), g.sortOf(pt.Elem())}
	}
	nq := new(int)
	*nq = 5000 * (len(g.obls) + 1)
	env := &cenv{g: g, st: st, old: st, vars: vars, pkg: g.w.allTPkg[fc.pkgPath], nq: nq}
	pnames := map[string]bool{}
	for _, p := range fc.params {
		pnames[p.name] = true
	}
	for _, c := range fc.requires {
		if mentionsAny(c.e, pnames) {
			continue
		}
		t, err := env.safeBool(c)
		if err != nil {
			panic(transErr(err.Error()))
		}
		g.oblige("closure-pre", fn.Name()+"/"+strings.TrimPrefix(c.label, "pre:"), t, x.Pos())
		g.obls[len(g.obls)-1].src = "closure " + fn.Name() + " requires " + c.src
	}
}

func mentionsAny(x cexpr, names map[string]bool) bool {
	switch x := x.(type) {
	case *cIdent:
		return names[x.name]
	case *cUnary:
		return mentionsAny(x.x, names)
	case *cBinary:
		return mentionsAny(x.x, names) || mentionsAny(x.y, names)
	case *cCall:
		for _, a := range x.args {
			if mentionsAny(a, names) {
				return true
			}
		}
		return false
	case *cSel:
		return mentionsAny(x.x, names)
	case *cIndex:
		return mentionsAny(x.x, names) || mentionsAny(x.idx, names)
	case *cSlice:
		return mentionsAny(x.x, names) || (x.lo != nil && mentionsAny(x.lo, names)) || (x.hi != nil && mentionsAny(x.hi, names))
	case *cQuant:
		inner := map[string]bool{}
		for k, v := range names {
			inner[k] = v
		}
		for _, v := range x.vars {
			delete(inner, v.name)
		}
		return mentionsAny(x.body, inner)
	case *cCond:
		return mentionsAny(x.c, names) || mentionsAny(x.a, names) || mentionsAny(x.b, names)
	}
	return false
}

type stackLocal struct {
	ref      string
	keys     []string
	captured bool // a captured variable's cell (closures may write it)
}

// allocEscapes: is the address of the local used for anything but direct loads, stores
// and field/element addressing?
func allocEscapes(a *ssa.Alloc) bool {
	var esc func(v ssa.Value, depth int) bool
	esc = func(v ssa.Value, depth int) bool {
		refs := v.Referrers()
		if refs == nil {
			return true
		}
		for _, in := range *refs {
			switch u := in.(type) {
			case *ssa.DebugRef:
			case *ssa.UnOp:
				if u.Op != token.MUL {
					return true
				}
			case *ssa.Store:
				if u.Val == v {
					return true
				}
			case *ssa.FieldAddr:
				if depth > 6 || esc(u, depth+1) {
					return true
				}
			case *ssa.IndexAddr:
				if u.X != v || depth > 6 || esc(u, depth+1) {
					return true
				}
			default:
				return true
			}
		}
		return false
	}
	return esc(a, 0)
}

// restoreStackLocals: after a call's frame has been applied, the cells of non-escaping
// locals still hold what they held before the call.
func (g *fgen) restoreStackLocals(before, st *state, calleeIsClosure bool) {
	for _, sl := range g.stackLocals {
		if sl.captured && calleeIsClosure {
			continue
		}
		for _, k := range sl.keys {
			if strings.HasPrefix(k, "G_") {
				continue
			}
			old := g.read(before, k)
			cur := g.read(st, k)
			if old == cur {
				continue
			}
			n := g.fresh("H_"+k, g.heapSort[k])
			g.fact("true", fmt.Sprintf("(= %s (store %s %s (select %s %s)))", n, cur, sl.ref, old, sl.ref))
			st.heap[k] = n
		}
	}
}

func (g *fgen) zeroElemLeaves(st *state, l *loc, path []int, t types.Type, arr string) {
	if s, ok := isStructVal(t); ok {
		for i := 0; i < s.NumFields(); i++ {
			g.zeroElemLeaves(st, l, append(append([]int{}, path...), i), s.Field(i).Type(), arr)
		}
		return
	}
	k := g.leafKey(l, path, t)
	h := g.read(st, k)
	nh := g.fresh("H_"+k, g.heapSort[k])
	g.fact("true", fmt.Sprintf("(= %s (store %s %s ((as const (Array Int %s)) %s)))", nh, h, arr, g.sortOf(t), g.zero(t)))
	st.heap[k] = nh
}

func (g *fgen) fieldAddr(x *ssa.FieldAddr) {
	pt := x.X.Type().Underlying().(*types.Pointer).Elem()
	s := pt.Underlying().(*types.Struct)
	ft := s.Field(x.Field).Type()
	if in, ok := g.locs[x.X]; ok {
		if len(in.sub) > 0 {
			g.unsupported("field of array element inside struct")
			return
		}
		nl := *in
		nl.path = append(append([]int{}, in.path...), x.Field)
		nl.typ = ft
		g.locs[x] = &nl
		return
	}
	g.nilCheck(x.X, x.Pos(), "field "+s.Field(x.Field).Name())
	pv := g.get(x.X)
	g.locs[x] = &loc{root: rootField, rootT: typeName(pt), path: []int{x.Field}, base: pv.t, typ: ft}
}

func (g *fgen) indexAddr(x *ssa.IndexAddr) {
	i := g.get(x.Index)
	switch u := x.X.Type().Underlying().(type) {
	case *types.Slice:
		s := g.get(x.X)
		g.oblige("idx", g.siteLabel(x.Pos(), "index"), fmt.Sprintf("(and (<= 0 %s) (< %s (s_len %s)))", i.t, i.t, s.t), x.Pos())
		g.locs[x] = g.elemLoc(s, i.t)
		g.instantiateAt(i.t)
	case *types.Pointer:
		a := u.Elem().Underlying().(*types.Array)
		g.oblige("idx", g.siteLabel(x.Pos(), "index"), fmt.Sprintf("(and (<= 0 %s) (< %s %d))", i.t, i.t, a.Len()), x.Pos())
		if in, ok := g.locs[x.X]; ok && in.root != rootElem {
			// array stored in a struct field / box / global: sub-index into the leaf
			nl := *in
			g.leafKey(&nl, nl.path, in.typ)
			nl.sub = append(append([]string{}, in.sub...), i.t)
			nl.subT = append(append([]*types.Array{}, in.subT...), a)
			nl.typ = a.Elem()
			g.locs[x] = &nl
			return
		}
		g.nilCheck(x.X, x.Pos(), "array")
		pv := g.get(x.X)
		g.locs[x] = &loc{root: rootElem, rootT: g.elemKeyName(a.Elem()), base: pv.t, idx: i.t, typ: a.Elem()}
	default:
		g.unsupported("IndexAddr on %s", x.X.Type())
	}
}

func (g *fgen) binop(x *ssa.BinOp, st *state) {
	a, b := g.get(x.X), g.get(x.Y)
	t := x.X.Type()
	op := x.Op.String()
	switch x.Op {
	case token.EQL, token.NEQ:
		var r string
		switch {
		case a.sort == "Slice":
			// only comparison with nil is legal
			if b.t == "(mk_slice 0 0 0 0)" {
				r = fmt.Sprintf("(= (s_arr %s) 0)", a.t)
			} else {
				r = fmt.Sprintf("(= (s_arr %s) 0)", b.t)
			}
		case a.sort == "Iface" && b.sort == "Iface":
			if b.t == "(mk_iface 0 0)" {
				r = fmt.Sprintf("(= (i_dt %s) 0)", a.t)
			} else if a.t == "(mk_iface 0 0)" {
				r = fmt.Sprintf("(= (i_dt %s) 0)", b.t)
			} else {
				// dynamic comparison: equal (dt,pl) implies equal; boxed payloads may be equal by value
				if refIface(x.X) || refIface(x.Y) {
					// one side is a boxed pointer: interfaces are equal exactly when the
					// dynamic types and the pointers are
					r = fmt.Sprintf("(= %s %s)", a.t, b.t)
					break
				}
				n := g.fresh("ifeq", "Bool")
				g.fact("true", fmt.Sprintf("(=> (= %s %s) %s)", a.t, b.t, n))
				g.fact("true", fmt.Sprintf("(=> (not (= (i_dt %s) (i_dt %s))) (not %s))", a.t, b.t, n))
				r = n
			}
		case a.sort != b.sort:
			// interface vs concrete
			if a.sort == "Iface" {
				r = fmt.Sprintf("(and %s (= %s %s))", g.typeTest(a.t, b.typ), g.fromIface(a.t, b.typ), b.t)
			} else if b.sort == "Iface" {
				r = fmt.Sprintf("(and %s (= %s %s))", g.typeTest(b.t, a.typ), g.fromIface(b.t, a.typ), a.t)
			} else {
				g.unsupported("comparison of %s and %s", a.sort, b.sort)
				r = "false"
			}
		case isFloatSort(a.sort):
			r = fmt.Sprintf("(fp.eq %s %s)", a.t, b.t)
		default:
			r = fmt.Sprintf("(= %s %s)", a.t, b.t)
		}
		if x.Op == token.NEQ {
			r = not(r)
		}
		g.define(x, r)
		return
	}
	if isFloatSort(a.sort) {
		var r string
		switch x.Op {
		case token.LSS:
			r = fmt.Sprintf("(fp.lt %s %s)", a.t, b.t)
		case token.LEQ:
			r = fmt.Sprintf("(fp.leq %s %s)", a.t, b.t)
		case token.GTR:
			r = fmt.Sprintf("(fp.gt %s %s)", a.t, b.t)
		case token.GEQ:
			r = fmt.Sprintf("(fp.geq %s %s)", a.t, b.t)
		case token.ADD:
			r = fmt.Sprintf("(fp.add RNE %s %s)", a.t, b.t)
		case token.SUB:
			r = fmt.Sprintf("(fp.sub RNE %s %s)", a.t, b.t)
		case token.MUL:
			r = fmt.Sprintf("(fp.mul RNE %s %s)", a.t, b.t)
		case token.QUO:
			r = fmt.Sprintf("(fp.div RNE %s %s)", a.t, b.t)
		default:
			g.unsupported("float op %s", op)
			g.defineUnknown(x, st)
			return
		}
		g.define(x, r)
		return
	}
	if a.sort == "String" {
		var r string
		switch x.Op {
		case token.ADD:
			r = fmt.Sprintf("(str.++ %s %s)", a.t, b.t)
		case token.LSS:
			r = fmt.Sprintf("(str.< %s %s)", a.t, b.t)
		case token.LEQ:
			r = fmt.Sprintf("(str.<= %s %s)", a.t, b.t)
		case token.GTR:
			r = fmt.Sprintf("(str.< %s %s)", b.t, a.t)
		case token.GEQ:
			r = fmt.Sprintf("(str.<= %s %s)", b.t, a.t)
		default:
			g.unsupported("string op %s", op)
			g.defineUnknown(x, st)
			return
		}
		g.define(x, r)
		return
	}
	if a.sort == "Bool" {
		var r string
		switch x.Op {
		case token.AND, token.LAND:
			r = and(a.t, b.t)
		case token.OR, token.LOR:
			r = or(a.t, b.t)
		default:
			g.unsupported("bool op %s", op)
			g.defineUnknown(x, st)
			return
		}
		g.define(x, r)
		return
	}
	ii, ok := intInfoOf(t)
	if !ok {
		g.unsupported("binop %s on %s", op, t)
		g.defineUnknown(x, st)
		return
	}
	var r string
	switch x.Op {
	case token.LSS, token.LEQ, token.GTR, token.GEQ:
		r = fmt.Sprintf("(%s %s %s)", op, a.t, b.t)
	case token.ADD:
		r = addWrapTerm(ii, fmt.Sprintf("(+ %s %s)", a.t, b.t))
	case token.SUB:
		r = addWrapTerm(ii, fmt.Sprintf("(- %s %s)", a.t, b.t))
	case token.MUL:
		r = wrapTerm(ii, fmt.Sprintf("(* %s %s)", a.t, b.t))
	case token.QUO:
		g.oblige("div0", g.siteLabel(x.Pos(), "div"), fmt.Sprintf("(not (= %s 0))", b.t), x.Pos())
		if ii.signed {
			r = wrapTerm(ii, fmt.Sprintf("(tdiv %s %s)", a.t, b.t))
		} else {
			r = fmt.Sprintf("(div %s %s)", a.t, b.t)
		}
	case token.REM:
		g.oblige("div0", g.siteLabel(x.Pos(), "rem"), fmt.Sprintf("(not (= %s 0))", b.t), x.Pos())
		if ii.signed {
			r = fmt.Sprintf("(trem %s %s)", a.t, b.t)
		} else {
			r = fmt.Sprintf("(mod %s %s)", a.t, b.t)
		}
	case token.AND, token.OR, token.XOR, token.SHL, token.SHR, token.AND_NOT:
		if x.Op == token.SHL || x.Op == token.SHR {
			// shift count is unsigned or checked non-negative by the compiler for constants
			if bi, ok := intInfoOf(x.Y.Type()); ok && bi.signed && !isLit(b.t) {
				g.oblige("shiftneg", g.siteLabel(x.Pos(), "shift"), fmt.Sprintf("(<= 0 %s)", b.t), x.Pos())
			}
		}
		r = g.bitop(op, a.t, b.t, ii, false)
		v := g.define(x, r)
		if strings.HasPrefix(r, "(bit") || strings.HasPrefix(r, "(sh") {
			g.fact("true", g.wf(v.t, x.Type(), "", 0))
			// a few sound facts about the uninterpreted bit operations on non-negative operands
			switch x.Op {
			case token.AND:
				g.fact("true", fmt.Sprintf("(=> (and (<= 0 %s) (<= 0 %s)) (and (<= 0 %s) (<= %s %s) (<= %s %s)))", a.t, b.t, v.t, v.t, a.t, v.t, b.t))
			case token.OR:
				g.fact("true", fmt.Sprintf("(=> (and (<= 0 %s) (<= 0 %s)) (and (>= %s %s) (>= %s %s) (<= %s (+ %s %s))))", a.t, b.t, v.t, a.t, v.t, b.t, v.t, a.t, b.t))
			case token.SHR:
				g.fact("true", fmt.Sprintf("(=> (<= 0 %s) (and (<= 0 %s) (<= %s %s)))", a.t, v.t, v.t, a.t))
			}
		}
		return
	default:
		g.unsupported("binop %s", op)
		g.defineUnknown(x, st)
		return
	}
	g.define(x, r)
}

func (g *fgen) unop(x *ssa.UnOp, st *state) {
	switch x.Op {
	case token.MUL: // load
		g.nilCheck(x.X, x.Pos(), "load")
		l := g.locOf(x.X)
		if l == nil {
			g.unsupported("load through %s", x.X.Name())
			g.defineUnknown(x, st)
			return
		}
		g.guardCheck(st, l, false, x.Pos())
		v := g.define(x, g.load(st, l))
		g.fact("true", g.wf(v.t, x.Type(), st.alloc, 0))
		if gl, ok := x.X.(*ssa.Global); ok && v.sort == "Iface" && types.Identical(x.Type(), types.Universe.Lookup("error").Type()) {
			// package-level error variables are initialised once (errors.New) and never nil
			g.fact("true", fmt.Sprintf("(not (= (i_dt %s) 0))", v.t))
			g.assum["package-level error variable "+gl.String()+" is non-nil (initialised by errors.New/fmt.Errorf, never reassigned)"] = true
		}
	case token.NOT:
		g.define(x, not(g.get(x.X).t))
	case token.SUB:
		v := g.get(x.X)
		if isFloatSort(v.sort) {
			g.define(x, fmt.Sprintf("(fp.neg %s)", v.t))
			return
		}
		ii, _ := intInfoOf(x.Type())
		g.define(x, addWrapTerm(ii, fmt.Sprintf("(- %s)", v.t)))
	case token.XOR:
		v := g.get(x.X)
		ii, _ := intInfoOf(x.Type())
		if ii.signed {
			g.define(x, fmt.Sprintf("(- (- %s) 1)", v.t))
		} else {
			g.define(x, fmt.Sprintf("(- %s %s)", ii.max(), v.t))
		}
	case token.ARROW:
		g.unsupported("channel receive")
		if x.CommaOk {
			g.tuples[x] = nil
		} else {
			g.defineUnknown(x, st)
		}
	default:
		g.unsupported("unop %s", x.Op)
		g.defineUnknown(x, st)
	}
}

func (g *fgen) convert(x *ssa.Convert, st *state) {
	v := g.get(x.X)
	from, to := x.X.Type(), x.Type()
	fi, fok := intInfoOf(from)
	ti, tok := intInfoOf(to)
	switch {
	case fok && tok:
		if fi.bits <= ti.bits && (fi.signed == ti.signed || (!fi.signed && fi.bits < ti.bits)) {
			g.define(x, v.t)
		} else if fi.bits == ti.bits || (fi.signed && !ti.signed && fi.bits < ti.bits) {
			g.define(x, addWrapTermConv(fi, ti, v.t))
		} else {
			g.define(x, wrapTerm(ti, v.t))
		}
	case fok && isFloatSort(g.sortOf(to)):
		eb, sb := 11, 53
		if g.sortOf(to) == "(_ FloatingPoint 8 24)" {
			eb, sb = 8, 24
		}
		g.define(x, intToFloatTerm(fi, v.t, eb, sb))
		g.intFloatFacts(g.get(x).t)
	case isFloatSort(v.sort) && tok:
		// float -> int: value is implementation-defined when out of range; model in-range exactly
		// out of range the result is implementation-defined, but it is a function of the
		// operand (the same conversion of the same value gives the same result)
		fname := fmt.Sprintf("f2i_%s_%s", mangle(v.sort), mangle(types.TypeString(to.Underlying(), nil)))
		if !g.declared[fname] {
			g.declared[fname] = true
			g.emit(fmt.Sprintf("(declare-fun %s (%s) Int)", fname, v.sort))
		}
		g.define(x, fmt.Sprintf("(%s %s)", fname, v.t))
		r := g.get(x)
		g.fact("true", g.wf(r.t, to, "", 0))
		// in range: lo <= trunc(v) <= hi, i.e. lo-1 < v < hi+1 with both bounds powers of
		// two (or -1), exactly representable in the source format
		lo, hi := "(- "+pow2(ti.bits-1)+")", pow2(ti.bits-1)
		loCmp := "fp.leq"
		if !ti.signed {
			lo, hi = "(- 1)", pow2(ti.bits)
			loCmp = "fp.lt"
		}
		fw := "11 53"
		if v.sort == "(_ FloatingPoint 8 24)" {
			fw = "8 24"
		}
		g.fact("true", fmt.Sprintf("(=> (and (not (fp.isNaN %s)) (not (fp.isInfinite %s)) (%s ((_ to_fp %s) RNE (to_real %s)) %s) (fp.lt %s ((_ to_fp %s) RNE (to_real %s)))) (= %s (to_int (fp.to_real (fp.roundToIntegral RTZ %s)))))",
			v.t, v.t, loCmp, fw, lo, v.t, v.t, fw, hi, r.t, v.t))
	case isFloatSort(v.sort) && isFloatSort(g.sortOf(to)):
		if v.sort == g.sortOf(to) {
			g.define(x, v.t)
		} else if g.sortOf(to) == "(_ FloatingPoint 8 24)" {
			g.define(x, fmt.Sprintf("((_ to_fp 8 24) RNE %s)", v.t))
		} else {
			g.define(x, fmt.Sprintf("((_ to_fp 11 53) RNE %s)", v.t))
		}
	case v.sort == "Slice" && g.sortOf(to) == "String":
		// string(bytes): a deterministic function of the bytes
		r := g.define(x, g.bytesToString(st, v))
		g.fact("true", fmt.Sprintf("(= (str.len %s) (s_len %s))", r.t, v.t))
		g.bytesStringLink(st, v, r.t)
	case v.sort == "String" && g.sortOf(to) == "Slice":
		arr := g.allocRef(st)
		r := g.define(x, fmt.Sprintf("(mk_slice %s 0 (str.len %s) (str.len %s))", arr, v.t, v.t))
		if et := to.Underlying().(*types.Slice).Elem(); g.sortOf(et) == "Int" {
			if b, ok := et.Underlying().(*types.Basic); ok && b.Kind() == types.Uint8 {
				g.havocKey(st, g.registerElemKey(et))
				g.bytesStringLink(st, r, v.t)
			}
		}
	case fok && g.sortOf(to) == "String":
		g.defineUnknown(x, st)
	case v.sort == g.sortOf(to):
		g.define(x, v.t)
	default:
		g.unsupported("convert %s -> %s", from, to)
		g.defineUnknown(x, st)
	}
}

func (g *fgen) registerElemKey(et types.Type) string {
	l := &loc{root: rootElem, rootT: g.elemKeyName(et), typ: et}
	return g.leafKey(l, nil, et)
}

// bytesStringLink states that the bytes of slice s equal the characters of string str.
func (g *fgen) bytesStringLink(st *state, s val, str string) {
	et := s.typ.Underlying().(*types.Slice).Elem()
	k := g.registerElemKey(et)
	h := g.read(st, k)
	g.emit(fmt.Sprintf("(assert (forall ((i!q Int)) (! (=> (and (<= 0 i!q) (< i!q (s_len %s))) (= (select (select %s (s_arr %s)) (+ (s_off %s) i!q)) (str.to_code (str.at %s i!q)))) :pattern ((str.at %s i!q)))))", s.t, h, s.t, s.t, str, str))
}

// bytesToString: string(b) as an uninterpreted function of (backing array, off, len), so
// that converting the same bytes twice (in code and in a contract) yields equal strings.
func (g *fgen) bytesToString(st *state, s val) string {
	et := s.typ.Underlying().(*types.Slice).Elem()
	k := g.registerElemKey(et)
	h := g.read(st, k)
	if !g.declared["b2s"] {
		g.declared["b2s"] = true
		g.emit("(declare-fun b2s ((Array Int Int) Int Int) String)")
	}
	return fmt.Sprintf("(b2s (select %s (s_arr %s)) (s_off %s) (s_len %s))", h, s.t, s.t, s.t)
}

func floatOfInt(i string) string {
	return fmt.Sprintf("((_ to_fp 11 53) RNE (to_real %s))", i)
}

// addWrapTermConv: same-width signedness change (one wrap at most).
func addWrapTermConv(fi, ti intInfo, t string) string {
	return addWrapTerm(ti, t)
}

func (g *fgen) lookup(x *ssa.Lookup, st *state) {
	m := g.get(x.X)
	k := g.get(x.Index)
	switch u := x.X.Type().Underlying().(type) {
	case *types.Map:
		hk, vk, _ := g.mapKeys(u)
		if k.sort != g.sortOf(u.Key()) && g.sortOf(u.Key()) == "Iface" {
			k = val{g.makeIface(st, g.curGuard, k), u.Key(), "Iface"}
		}
		has := fmt.Sprintf("(select (select %s %s) %s)", g.read(st, hk), m.t, k.t)
		v := fmt.Sprintf("(ite %s (select (select %s %s) %s) %s)", has, g.read(st, vk), m.t, k.t, g.zero(u.Elem()))
		if x.CommaOk {
			vn := g.fresh("v_"+x.Name()+"_v", g.sortOf(u.Elem()))
			g.fact("true", fmt.Sprintf("(= %s %s)", vn, v))
			g.fact("true", g.wf(vn, u.Elem(), st.alloc, 0))
			on := g.fresh("v_"+x.Name()+"_ok", "Bool")
			g.fact("true", fmt.Sprintf("(= %s %s)", on, has))
			g.tuples[x] = []val{{vn, u.Elem(), g.sortOf(u.Elem())}, {on, tBool, "Bool"}}
		} else {
			r := g.define(x, v)
			g.fact("true", g.wf(r.t, u.Elem(), st.alloc, 0))
		}
	case *types.Basic: // string index
		g.oblige("idx", g.siteLabel(x.Pos(), "index"), fmt.Sprintf("(and (<= 0 %s) (< %s (str.len %s)))", k.t, k.t, m.t), x.Pos())
		r := g.define(x, fmt.Sprintf("(str.to_code (str.at %s %s))", m.t, k.t))
		g.fact(g.curGuard, fmt.Sprintf("(and (<= 0 %s) (<= %s 255))", r.t, r.t))
	default:
		g.unsupported("lookup on %s", x.X.Type())
		g.defineUnknown(x, st)
	}
}

func (g *fgen) mapUpdate(x *ssa.MapUpdate, st *state) {
	m := g.get(x.Map)
	k := g.get(x.Key)
	v := g.get(x.Value)
	mt := x.Map.Type().Underlying().(*types.Map)
	if k.sort != g.sortOf(mt.Key()) && g.sortOf(mt.Key()) == "Iface" {
		k = val{g.makeIface(st, g.curGuard, k), mt.Key(), "Iface"}
	}
	g.oblige("nilmap", g.siteLabel(x.Pos(), "map update"), fmt.Sprintf("(not (= %s 0))", m.t), x.Pos())
	if u, ok := x.Map.(*ssa.UnOp); ok {
		if l, ok := g.locs[u.X]; ok {
			g.guardCheck(st, l, true, x.Pos()) // writing a guarded map needs the write lock
		}
	}
	hk, vk, lk := g.mapKeys(mt)
	h, vv, l := g.read(st, hk), g.read(st, vk), g.read(st, lk)
	nl := g.fresh("H_"+lk, g.heapSort[lk])
	g.fact("true", fmt.Sprintf("(= %s (store %s %s (ite (select (select %s %s) %s) (select %s %s) (+ (select %s %s) 1))))", nl, l, m.t, h, m.t, k.t, l, m.t, l, m.t))
	st.heap[lk] = nl
	nh := g.fresh("H_"+hk, g.heapSort[hk])
	g.fact("true", fmt.Sprintf("(= %s (store %s %s (store (select %s %s) %s true)))", nh, h, m.t, h, m.t, k.t))
	st.heap[hk] = nh
	nv := g.fresh("H_"+vk, g.heapSort[vk])
	g.fact("true", fmt.Sprintf("(= %s (store %s %s (store (select %s %s) %s %s)))", nv, vv, m.t, vv, m.t, k.t, v.t))
	st.heap[vk] = nv
}

func (g *fgen) makeSlice(x *ssa.MakeSlice, st *state) {
	n := g.get(x.Len)
	c := g.get(x.Cap)
	g.oblige("makeneg", g.siteLabel(x.Pos(), "make"), fmt.Sprintf("(and (<= 0 %s) (<= %s %s))", n.t, n.t, c.t), x.Pos())
	arr := g.allocRef(st)
	et := x.Type().Underlying().(*types.Slice).Elem()
	l := &loc{root: rootElem, rootT: g.elemKeyName(et), base: arr, idx: "0", typ: et}
	g.zeroElemLeaves(st, l, nil, et, arr)
	g.define(x, fmt.Sprintf("(mk_slice %s 0 %s %s)", arr, n.t, c.t))
}

func (g *fgen) sliceOp(x *ssa.Slice, st *state) {
	lo := "0"
	if x.Low != nil {
		lo = g.get(x.Low).t
	}
	switch u := x.X.Type().Underlying().(type) {
	case *types.Slice:
		s := g.get(x.X)
		hi := fmt.Sprintf("(s_len %s)", s.t)
		if x.High != nil {
			hi = g.get(x.High).t
		}
		mx := fmt.Sprintf("(s_cap %s)", s.t)
		if x.Max != nil {
			mx = g.get(x.Max).t
		}
		g.oblige("slice", g.siteLabel(x.Pos(), "slice"), fmt.Sprintf("(and (<= 0 %s) (<= %s %s) (<= %s %s) (<= %s (s_cap %s)))", lo, lo, hi, hi, mx, mx, s.t), x.Pos())
		g.define(x, fmt.Sprintf("(mk_slice (s_arr %s) (+ (s_off %s) %s) (- %s %s) (- %s %s))", s.t, s.t, lo, hi, lo, mx, lo))
	case *types.Basic: // string
		s := g.get(x.X)
		hi := fmt.Sprintf("(str.len %s)", s.t)
		if x.High != nil {
			hi = g.get(x.High).t
		}
		g.oblige("slice", g.siteLabel(x.Pos(), "slice"), fmt.Sprintf("(and (<= 0 %s) (<= %s %s) (<= %s (str.len %s)))", lo, lo, hi, hi, s.t), x.Pos())
		g.define(x, fmt.Sprintf("(str.substr %s %s (- %s %s))", s.t, lo, hi, lo))
	case *types.Pointer: // *[N]T
		a := u.Elem().Underlying().(*types.Array)
		hi := fmt.Sprint(a.Len())
		if x.High != nil {
			hi = g.get(x.High).t
		}
		mx := fmt.Sprint(a.Len())
		if x.Max != nil {
			mx = g.get(x.Max).t
		}
		if in, ok := g.locs[x.X]; ok && in.root != rootElem {
			g.unsupported("slicing an array stored inside a struct")
			g.defineUnknown(x, st)
			return
		}
		g.nilCheck(x.X, x.Pos(), "array")
		pv := g.get(x.X)
		g.oblige("slice", g.siteLabel(x.Pos(), "slice"), fmt.Sprintf("(and (<= 0 %s) (<= %s %s) (<= %s %s) (<= %s %d))", lo, lo, hi, hi, mx, mx, a.Len()), x.Pos())
		g.define(x, fmt.Sprintf("(mk_slice %s %s (- %s %s) (- %s %s))", pv.t, lo, hi, lo, mx, lo))
	default:
		g.unsupported("slice of %s", x.X.Type())
		g.defineUnknown(x, st)
	}
}

func (g *fgen) typeAssert(x *ssa.TypeAssert, st *state) {
	v := g.get(x.X)
	ok := g.typeTest(v.t, x.AssertedType)
	var r string
	if _, isI := x.AssertedType.Underlying().(*types.Interface); isI {
		r = v.t
	} else {
		r = g.fromIface(v.t, x.AssertedType)
	}
	if x.CommaOk {
		on := g.fresh("v_"+x.Name()+"_ok", "Bool")
		g.fact("true", fmt.Sprintf("(= %s %s)", on, ok))
		vn := g.fresh("v_"+x.Name()+"_v", g.sortOf(x.AssertedType))
		g.fact("true", fmt.Sprintf("(= %s (ite %s %s %s))", vn, on, r, g.zero(x.AssertedType)))
		g.fact("true", g.wf(vn, x.AssertedType, st.alloc, 0))
		g.tuples[x] = []val{{vn, x.AssertedType, g.sortOf(x.AssertedType)}, {on, tBool, "Bool"}}
		return
	}
	g.oblige("assert", g.siteLabel(x.Pos(), "type assertion"), ok, x.Pos())
	// execution continues past a single-result type assertion only if it held
	g.fact(g.curGuard, ok)
	rv := g.define(x, r)
	g.fact(g.curGuard, g.wf(rv.t, x.AssertedType, st.alloc, 0))
}

func (g *fgen) next(x *ssa.Next, st *state) {
	rng, _ := x.Iter.(*ssa.Range)
	if rng == nil {
		g.unsupported("next on non-range")
		g.tuples[x] = nil
		return
	}
	okv := g.fresh("v_"+x.Name()+"_ok", "Bool")
	switch u := rng.X.Type().Underlying().(type) {
	case *types.Map:
		m := g.get(rng.X)
		hk, vk, _ := g.mapKeys(u)
		kn := g.fresh("v_"+x.Name()+"_k", g.sortOf(u.Key()))
		vn := g.fresh("v_"+x.Name()+"_v", g.sortOf(u.Elem()))
		g.fact("true", g.wf(kn, u.Key(), st.alloc, 0))
		g.fact("true", g.wf(vn, u.Elem(), st.alloc, 0))
		g.fact("true", fmt.Sprintf("(=> %s (and (select (select %s %s) %s) (= %s (select (select %s %s) %s))))", okv, g.read(st, hk), m.t, kn, vn, g.read(st, vk), m.t, kn))
		g.fact("true", fmt.Sprintf("(=> (= %s 0) (not %s))", m.t, okv))
		g.tuples[x] = []val{{okv, tBool, "Bool"}, {kn, u.Key(), g.sortOf(u.Key())}, {vn, u.Elem(), g.sortOf(u.Elem())}}
	case *types.Basic:
		kn := g.fresh("v_"+x.Name()+"_k", "Int")
		vn := g.fresh("v_"+x.Name()+"_v", "Int")
		s := g.get(rng.X)
		g.fact("true", fmt.Sprintf("(=> %s (and (<= 0 %s) (< %s (str.len %s)) (<= 0 %s) (<= %s 1114111)))", okv, kn, kn, s.t, vn, vn))
		g.tuples[x] = []val{{okv, tBool, "Bool"}, {kn, tInt, "Int"}, {vn, types.Typ[types.Rune], "Int"}}
	default:
		g.unsupported("range over %s", rng.X.Type())
		g.tuples[x] = nil
	}
}

func (g *fgen) panicInstr(x *ssa.Panic, st *state) {
	fc := g.fc
	if fc.maypanic {
		return
	}
	goal := "false"
	if len(fc.panicsIf) > 0 {
		env := g.clauseEnv(g.entry, nil, nil)
		var ds []string
		for _, c := range fc.panicsIf {
			t, err := env.safeBool(c)
			if err != nil {
				panic(transErr(err.Error()))
			}
			ds = append(ds, t)
		}
		goal = or(ds...)
	}
	g.oblige("panic", g.siteLabel(x.Pos(), "panic"), goal, x.Pos())
}

func (g *fgen) ret(x *ssa.Return, st *state) {
	fc := g.fc
	g.retGuards = append(g.retGuards, g.curGuard)
	env := g.clauseEnv(st, x.Block(), nil)
	if len(fc.results) != len(x.Results) {
		panic(transErr(fmt.Sprintf("%s: contract declares %d results, function returns %d", fc.where, len(fc.results), len(x.Results))))
	}
	for i, r := range x.Results {
		env.vars[fc.results[i].name] = g.get(r)
	}
	// ghost code by decree: havoc the ghost variables the contract writes, then assume
	// their defining clauses
	if len(fc.ghostWrites) > 0 {
		for _, name := range fc.ghostWrites {
			if k, gv := g.ghostKey(name); gv != nil {
				g.havocKey(st, k)
			}
		}
		for _, c := range fc.defines {
			t, err := env.safeBool(c)
			if err != nil {
				panic(transErr(err.Error()))
			}
			g.fact(g.curGuard, t)
		}
	}
	g.assertGinvs(st, "ginv-ret", g.w.srcText(x.Pos(), 0), x.Pos())
	g.frameObligations(st, x.Pos(), g.w.srcText(x.Pos(), 0))
	g.modIfObligations(st, x.Pos(), g.w.srcText(x.Pos(), 0))
	for _, c := range fc.ensures {
		t, err := env.safeBool(c)
		if err != nil {
			if strings.Contains(err.Error(), "unknown identifier") {
				// the clause names a local that is not defined on the way to this return
				// (an early error return): nothing to check here
				g.assum["postcondition `"+c.src+"` of "+g.key+" is not checked at `"+g.w.srcText(x.Pos(), 0)+"` (a local it names is not defined there)"] = true
				continue
			}
			panic(transErr(err.Error()))
		}
		g.oblige("post", strings.TrimPrefix(c.label, "post:")+"@"+g.w.srcText(x.Pos(), 0), t, x.Pos())
		g.obls[len(g.obls)-1].src = c.src
	}
}

// modIfObligations: callee side of a conditional frame, asserted at a return.  Under the
// condition (evaluated at entry): every full havoc on the way was itself a call whose
// conditional frame applied and lets no more keys change than ours; and every heap key
// this function's verification condition knows, other than the listed ones, has its
// entry value at every object allocated at entry.
func (g *fgen) modIfObligations(st *state, pos token.Pos, site string) {
	fc := g.fc
	if fc == nil || fc.modIf == nil || fc.trusted {
		return
	}
	env := g.clauseEnv(g.entry, nil, nil)
	c0, err := env.safeBool(fc.modIf.cond)
	if err != nil {
		panic(transErr(err.Error()))
	}
	except := g.modIfKeys(fc)
	for i, ev := range g.fullHavocs {
		goal := fmt.Sprintf("(=> (and %s %s) %s)", ev.guard, c0, ev.cond)
		for k := range ev.except {
			if !except[k] {
				goal = "false"
			}
		}
		g.oblige("frame-if", fmt.Sprintf("%s/havoc%d", site, i+1), goal, pos)
		g.obls[len(g.obls)-1].src = "under `" + fc.modIf.cond.src + "` every unbounded call on the way has its own conditional frame active (" + ev.who + ")"
	}
	var keys []string
	for _, k := range sortedKeys(g.heapSort) {
		if !except[k] {
			keys = append(keys, k)
		}
	}
	sort.Strings(keys)
	var cs []string
	for _, k := range keys {
		a, b := g.read(st, k), g.read(g.entry, k)
		if a == b {
			continue
		}
		if strings.HasPrefix(g.heapSort[k], "(Array Int") {
			cs = append(cs, fmt.Sprintf("(forall ((r!f Int)) (=> (and (<= 0 r!f) (<= r!f %s)) (= (select %s r!f) (select %s r!f))))", g.entry.alloc, a, b))
		} else {
			cs = append(cs, fmt.Sprintf("(= %s %s)", a, b))
		}
	}
	g.oblige("frame-if", site+"/keys", implies(c0, and(cs...)), pos)
	g.obls[len(g.obls)-1].src = "under `" + fc.modIf.cond.src + "` only " + strings.Join(fc.modIf.items, ", ") + " may change"
}

// allEdgesAlloc: every value flowing into the phi is the address of a local allocation.
func allEdgesAlloc(phi *ssa.Phi, seen map[*ssa.Phi]bool) bool {
	if seen[phi] {
		return true
	}
	seen[phi] = true
	if _, ok := phi.Type().Underlying().(*types.Pointer); !ok {
		return false
	}
	for _, e := range phi.Edges {
		switch x := e.(type) {
		case *ssa.Alloc:
		case *ssa.Phi:
			if !allEdgesAlloc(x, seen) {
				return false
			}
		default:
			return false
		}
	}
	return true
}

// assumeAxioms: axioms (assumed, listed) and lemmas (proved as obligations of their own
// property) of the function's package, or about spec functions its contracts name, are
// facts of the verification condition.
func (g *fgen) assumeAxioms() {
	if len(g.w.cs.lemmas) == 0 {
		return
	}
	mentioned := g.mentionedNames()
	for _, ld := range g.w.cs.lemmas {
		rel := ld.pkgPath == g.pkgPath
		if !rel && mentioned != nil {
			for _, id := range reIdent.FindAllString(ld.body.src, -1) {
				if g.w.cs.specs[id] != nil && mentioned[id] {
					rel = true
					break
				}
			}
		}
		if !rel {
			continue
		}
		nq := new(int)
		env := &cenv{g: g, st: g.entry, old: g.entry, vars: map[string]val{}, pkg: g.w.allTPkg[ld.pkgPath], nq: nq}
		t, err := env.safeBool(ld.body)
		if err != nil {
			continue
		}
		g.fact("true", t)
		if ld.isAxiom {
			g.assum["axiom "+ld.name+": "+ld.body.src] = true
		}
	}
}

// refIface: the interface value is the boxing of a pointer-like (reference sort) value.
func refIface(v ssa.Value) bool {
	mi, ok := v.(*ssa.MakeInterface)
	return ok && isRefSort(mi.X.Type())
}

// intFloatFacts: the float an integer converts to is finite, not NaN and never negative
// zero (stated so that the solver need not unfold the bit-level conversion).
func (g *fgen) intFloatFacts(t string) {
	if strings.Contains(t, "q!") || strings.Contains(t, "a!") {
		return
	}
	g.fact("true", fmt.Sprintf("(and (not (fp.isNaN %s)) (not (fp.isInfinite %s)) (not (and (fp.isZero %s) (fp.isNegative %s))))", t, t, t, t))
}
