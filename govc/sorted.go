package main

import "sort"

// sortedKeys: map iteration in a fixed order, so that the generated queries are the same
// text on every run (solver behaviour depends on the order of declarations and facts).
func sortedKeys[V any](m map[string]V) []string {
	ks := make([]string, 0, len(m))
	for k := range m {
		ks = append(ks, k)
	}
	sort.Strings(ks)
	return ks
}
