package main

// Contract files: //@ comment blocks in /repo/<pkg>/verif_contracts.go and
// /verif/contracts/trusted/*.vc

import (
	"fmt"
	"os"
	"regexp"
	"sort"
	"strconv"
	"strings"
)

type clause struct {
	src   string
	e     cexpr
	label string // e.g. post:1
	where string // file:line
}

type loopSpec struct {
	invariants []clause
	decreases  *clause
}

type funcContract struct {
	pkgPath  string
	key      string // "(*Writer).flush", "reverseComparator", "(Writer).Write" (interface)
	recvName string
	recvType *ctype
	params   []cparam
	results  []cparam
	variadic bool

	props    []string
	requires []clause
	ensures  []clause
	panicsIf []clause
	modifies []string // raw location strings; "*" = everything
	hasMod   bool
	// modIf: conditional frame.  When cond (evaluated in the pre-state) holds, only the
	// listed items may change, whatever the unconditional `modifies` says.
	modIf *modIfClause
	// witnesses: instantiation hints (terms over the parameters / entry state)
	witnesses []clause
	// goSync: `go f()` statements of this function are modelled as synchronous calls
	// (the goroutine is joined before its results are used); an assumption, listed
	goSync bool
	// indexInst: the quantified postconditions of this contract are also instantiated at
	// the caller's slice-index terms (by default only at goal skolems)
	indexInst bool
	// nilRecvOK: the method tolerates a nil receiver (no nilrecv obligation at calls,
	// no non-nil assumption in its own verification)
	nilRecvOK bool
	// preserves: heap cells excluded from a coarse `modifies` (heap, pkg(..), elems)
	preserves []string
	// ghost code by decree: ghostWrites are havocked at every return of the function
	// and then constrained by the `defines` clauses (assumed, not checked); callers see
	// the same.  Only ghost variables may be constrained this way.
	ghostWrites []string
	defines     []clause
	loops    map[int]*loopSpec
	trusted  bool // contract not checked against a body
	pure     bool // modifies nothing, result is a function of args+heap
	isIface  bool
	nopanic  bool // every panic site is an obligation (default true for functions with bodies)
	maypanic bool // panic sites are not obligations
	refines  string
	noframe  bool
	noinv    bool
	where    string

	autoLoopInv []clause // type invariants carried by every loop of the method
}

type specFunc struct {
	pkgPath string
	name    string
	params  []cparam
	result  *ctype
	body    cexpr // nil => uninterpreted
	src     string
	rec     bool
	where   string
}

type ghostVar struct {
	pkgPath string
	name    string
	typ     *ctype
	where   string
}

type ghostField struct {
	pkgPath string
	recv    *ctype
	name    string
	typ     *ctype
	where   string
}

type modIfClause struct {
	cond  clause
	items []string
}

type lemmaDecl struct {
	pkgPath string
	name    string
	isAxiom bool
	body    clause
	props   []string
	where   string
}

type contractSet struct {
	funcs       map[string]*funcContract // pkgPath + "::" + key
	specs       map[string]*specFunc     // name (global namespace; also pkg-qualified)
	ghosts      map[string]*ghostVar
	ghostFields []*ghostField
	lemmas      []*lemmaDecl
	pureFields  map[string]bool // "pkgpath.Type.field"
	files       []string
	order       []string // func keys in file order
	invariants  []*typeInvariant
	ginvariants []*typeInvariant
	guards      []*guardDecl
}

// guardDecl: fields of a struct that may only be accessed while its mutex is held.
type guardDecl struct {
	pkgPath  string
	recvName string
	recvType string // "*Context"
	mutex    string // field name of the mutex
	fields   []string
	// rely: two-state conditions on the guarded fields that every other goroutine is
	// assumed to respect between a release and the next acquisition (old = at release)
	rely  []clause
	where string
}

// typeInvariant is sugar: the expression is added to the requires and ensures of
// every method contract (same package, same receiver type) that does not say `noinv`.
type typeInvariant struct {
	pkgPath  string
	recvName string
	recvType string
	src      string
	e        cexpr
	where    string
}

// renameIdent substitutes identifier `from` by `to` in an expression.
func renameIdent(x cexpr, from, to string) cexpr {
	switch x := x.(type) {
	case *cIdent:
		if x.name == from {
			return &cIdent{to}
		}
		return x
	case *cUnary:
		return &cUnary{x.op, renameIdent(x.x, from, to)}
	case *cBinary:
		return &cBinary{x.op, renameIdent(x.x, from, to), renameIdent(x.y, from, to)}
	case *cCall:
		var as []cexpr
		for _, a := range x.args {
			as = append(as, renameIdent(a, from, to))
		}
		return &cCall{renameIdent(x.fun, from, to), as}
	case *cSel:
		return &cSel{renameIdent(x.x, from, to), x.name}
	case *cIndex:
		return &cIndex{renameIdent(x.x, from, to), renameIdent(x.idx, from, to)}
	case *cSlice:
		var lo, hi cexpr
		if x.lo != nil {
			lo = renameIdent(x.lo, from, to)
		}
		if x.hi != nil {
			hi = renameIdent(x.hi, from, to)
		}
		return &cSlice{renameIdent(x.x, from, to), lo, hi}
	case *cQuant:
		for _, v := range x.vars {
			if v.name == from {
				return x
			}
		}
		return &cQuant{x.forall, x.vars, renameIdent(x.body, from, to)}
	case *cCond:
		return &cCond{renameIdent(x.c, from, to), renameIdent(x.a, from, to), renameIdent(x.b, from, to)}
	}
	return x
}

// applyRefines: a method contract with `refines Iface.Method` must also establish the
// interface method's postconditions (self := the receiver converted to the interface).
func (cs *contractSet) applyRefines() error {
	for _, k := range cs.order {
		fc := cs.funcs[k]
		if fc.refines == "" {
			continue
		}
		parts := strings.Split(fc.refines, ".")
		if len(parts) != 2 {
			return fmt.Errorf("%s: refines wants Iface.Method", fc.where)
		}
		ic := cs.funcs[fc.pkgPath+"::("+parts[0]+")."+parts[1]]
		if ic == nil || !ic.isIface {
			return fmt.Errorf("%s: no interface contract %s", fc.where, fc.refines)
		}
		if len(ic.params) != len(fc.params) || len(ic.results) != len(fc.results) {
			return fmt.Errorf("%s: refines %s: signature mismatch", fc.where, fc.refines)
		}
		for _, c := range ic.ensures {
			e := c.e
			// rename in two steps to avoid capture
			for i, p := range ic.params {
				e = renameIdent(e, p.name, fmt.Sprintf("ref$p%d", i))
			}
			for i, p := range ic.results {
				e = renameIdent(e, p.name, fmt.Sprintf("ref$r%d", i))
			}
			for i, p := range fc.params {
				e = renameIdent(e, fmt.Sprintf("ref$p%d", i), p.name)
			}
			for i, p := range fc.results {
				e = renameIdent(e, fmt.Sprintf("ref$r%d", i), p.name)
			}
			e = substIdent(e, "self", &cCall{fun: &cIdent{parts[0]}, args: []cexpr{&cIdent{fc.recvName}}})
			fc.ensures = append(fc.ensures, clause{src: c.src + " [refines " + fc.refines + "]", e: e, label: fmt.Sprintf("post:ref%d", len(fc.ensures)+1), where: c.where})
		}
	}
	return nil
}

// substIdent replaces identifier `from` by an expression.
func substIdent(x cexpr, from string, to cexpr) cexpr {
	switch x := x.(type) {
	case *cIdent:
		if x.name == from {
			return to
		}
		return x
	case *cUnary:
		return &cUnary{x.op, substIdent(x.x, from, to)}
	case *cBinary:
		return &cBinary{x.op, substIdent(x.x, from, to), substIdent(x.y, from, to)}
	case *cCall:
		var as []cexpr
		for _, a := range x.args {
			as = append(as, substIdent(a, from, to))
		}
		return &cCall{x.fun, as}
	case *cSel:
		return &cSel{substIdent(x.x, from, to), x.name}
	case *cIndex:
		return &cIndex{substIdent(x.x, from, to), substIdent(x.idx, from, to)}
	case *cSlice:
		var lo, hi cexpr
		if x.lo != nil {
			lo = substIdent(x.lo, from, to)
		}
		if x.hi != nil {
			hi = substIdent(x.hi, from, to)
		}
		return &cSlice{substIdent(x.x, from, to), lo, hi}
	case *cQuant:
		for _, v := range x.vars {
			if v.name == from {
				return x
			}
		}
		return &cQuant{x.forall, x.vars, substIdent(x.body, from, to)}
	case *cCond:
		return &cCond{substIdent(x.c, from, to), substIdent(x.a, from, to), substIdent(x.b, from, to)}
	}
	return x
}

// applyInvariants expands type invariants into the method contracts.
func (cs *contractSet) applyInvariants() {
	for _, inv := range cs.invariants {
		for _, k := range cs.order {
			fc := cs.funcs[k]
			if fc.pkgPath != inv.pkgPath || fc.recvType == nil || fc.recvType.String() != inv.recvType || fc.noinv || fc.isIface {
				continue
			}
			e := renameIdent(inv.e, inv.recvName, fc.recvName)
			fc.requires = append(fc.requires, clause{src: inv.src + " [invariant]", e: e, label: fmt.Sprintf("pre:%d", len(fc.requires)+1), where: inv.where})
			fc.ensures = append(fc.ensures, clause{src: inv.src + " [invariant]", e: e, label: fmt.Sprintf("post:inv%d", len(fc.ensures)+1), where: inv.where})
			fc.autoLoopInv = append(fc.autoLoopInv, clause{src: inv.src + " [invariant]", e: e, where: inv.where})
		}
	}
}

func newContractSet() *contractSet {
	return &contractSet{funcs: map[string]*funcContract{}, specs: map[string]*specFunc{}, ghosts: map[string]*ghostVar{}}
}

var clauseKeywords = map[string]bool{
	"prop": true, "requires": true, "ensures": true, "modifies": true, "loop": true, "trusted": true,
	"pure": true, "panics-if": true, "nopanic": true, "maypanic": true, "mode": true, "decreases": true, "refines": true,
	"noframe": true, "nil-receiver-ok": true, "go-sync": true, "witness": true, "modifies-if": true, "using": true, "noinv": true, "rec": true, "preserves": true, "ghost-writes": true, "defines": true, "rely": true, "index-instances": true,
}

var reLoop = regexp.MustCompile(`^(\d+)\s*:\s*(invariant|decreases)\s+(.*)$`)

// loadContractFile parses one file. pkgPath is the default package ("" for trusted
// files, which must then use `package` lines).
func (cs *contractSet) loadContractFile(path, pkgPath string) error {
	data, err := os.ReadFile(path)
	if err != nil {
		return err
	}
	cs.files = append(cs.files, path)
	lines := strings.Split(string(data), "\n")
	type rawBlock struct {
		head    string
		clauses []string
		line    int
	}
	var blocks []*rawBlock
	var cur *rawBlock
	for i, ln := range lines {
		t := strings.TrimLeft(ln, " \t")
		if !strings.HasPrefix(t, "//@") {
			continue
		}
		body := t[3:]
		if strings.TrimSpace(body) == "" {
			continue
		}
		// block head: exactly one space then keyword
		trim := strings.TrimSpace(body)
		first := strings.Fields(trim)[0]
		indent := len(body) - len(strings.TrimLeft(body, " \t"))
		if indent <= 1 && first == "global" && strings.HasPrefix(trim, "global invariant") {
			trim = strings.TrimSpace(strings.TrimPrefix(trim, "global"))
			trim = "g" + trim // "ginvariant (...) ..."
			first = "ginvariant"
		}
		isHead := indent <= 1 && (first == "purefield" || first == "guarded" || first == "ginvariant" || first == "func" || first == "spec" || first == "axiom" || first == "lemma" || first == "ghost" || first == "interface" || first == "package" || first == "invariant")
		if isHead {
			cur = &rawBlock{head: trim, line: i + 1}
			blocks = append(blocks, cur)
			continue
		}
		if cur == nil {
			return fmt.Errorf("%s:%d: clause outside block", path, i+1)
		}
		kw := first
		if clauseKeywords[kw] && indent <= 4 {
			cur.clauses = append(cur.clauses, trim)
		} else {
			// continuation
			if len(cur.clauses) == 0 {
				cur.head += " " + trim
			} else {
				cur.clauses[len(cur.clauses)-1] += " " + trim
			}
		}
	}
	for _, b := range blocks {
		where := fmt.Sprintf("%s:%d", path, b.line)
		f := strings.Fields(b.head)
		switch f[0] {
		case "package":
			pkgPath = f[1]
			if pkgPath == "builtin" {
				pkgPath = ""
			}
		case "guarded":
			// guarded (c *Context) c.mu: byID, toType, toValue
			rest := strings.TrimSpace(strings.TrimPrefix(b.head, "guarded"))
			end := strings.Index(rest, ")")
			colon := strings.Index(rest, ":")
			if !strings.HasPrefix(rest, "(") || end < 0 || colon < end {
				return fmt.Errorf("%s: bad guarded declaration", where)
			}
			rf := strings.Fields(rest[1:end])
			mu := strings.TrimSpace(rest[end+1 : colon])
			if len(rf) != 2 || !strings.HasPrefix(mu, rf[0]+".") {
				return fmt.Errorf("%s: bad guarded declaration", where)
			}
			gd := &guardDecl{pkgPath: pkgPath, recvName: rf[0], recvType: rf[1], mutex: strings.TrimPrefix(mu, rf[0]+"."), where: where}
			for _, f := range strings.Split(rest[colon+1:], ",") {
				if f = strings.TrimSpace(f); f != "" {
					gd.fields = append(gd.fields, f)
				}
			}
			for _, cl := range b.clauses {
				if !strings.HasPrefix(cl, "rely ") {
					return fmt.Errorf("%s: guarded declarations take rely clauses only", where)
				}
				src := strings.TrimSpace(strings.TrimPrefix(cl, "rely "))
				e, err := parseCExpr(src)
				if err != nil {
					return fmt.Errorf("%s: %v", where, err)
				}
				gd.rely = append(gd.rely, clause{src: src, e: e, label: fmt.Sprintf("rely:%d", len(gd.rely)+1), where: where})
			}
			cs.guards = append(cs.guards, gd)
		case "invariant", "ginvariant":
			// invariant (w *Writer) expr
			rest := strings.TrimSpace(strings.TrimPrefix(b.head, f[0]))
			end := strings.Index(rest, ")")
			if !strings.HasPrefix(rest, "(") || end < 0 {
				return fmt.Errorf("%s: bad invariant", where)
			}
			rf := strings.Fields(rest[1:end])
			if len(rf) != 2 {
				return fmt.Errorf("%s: bad invariant receiver", where)
			}
			src := strings.TrimSpace(rest[end+1:])
			e, err := parseCExpr(src)
			if err != nil {
				return fmt.Errorf("%s: %v", where, err)
			}
			ti := &typeInvariant{pkgPath: pkgPath, recvName: rf[0], recvType: rf[1], src: src, e: e, where: where}
			if f[0] == "ginvariant" {
				cs.ginvariants = append(cs.ginvariants, ti)
			} else {
				cs.invariants = append(cs.invariants, ti)
			}
		case "purefield":
			// purefield T.f : calls through the function value held in field f of struct
			// type T are pure (deterministic in the function value and the arguments, no
			// heap effect).  An assumption about the values stored there, listed.
			if len(f) != 2 || !strings.Contains(f[1], ".") {
				return fmt.Errorf("%s: bad purefield decl", where)
			}
			if cs.pureFields == nil {
				cs.pureFields = map[string]bool{}
			}
			cs.pureFields[pkgPath+"."+f[1]] = true
		case "ghost":
			if len(f) >= 4 && f[1] == "var" {
				ty, err := parseTypeString(strings.Join(f[3:], " "))
				if err != nil {
					return fmt.Errorf("%s: %v", where, err)
				}
				cs.ghosts[f[2]] = &ghostVar{pkgPath, f[2], ty, where}
			} else {
				return fmt.Errorf("%s: bad ghost decl", where)
			}
		case "spec":
			sf, err := parseSpecFunc(strings.TrimSpace(strings.TrimPrefix(b.head, "spec")))
			if err != nil {
				return fmt.Errorf("%s: %v", where, err)
			}
			sf.pkgPath = pkgPath
			sf.where = where
			for _, c := range b.clauses {
				if strings.HasPrefix(c, "decreases") || c == "rec" {
					sf.rec = true
				}
			}
			if _, dup := cs.specs[sf.name]; dup {
				return fmt.Errorf("%s: duplicate spec func %s", where, sf.name)
			}
			cs.specs[sf.name] = sf
		case "axiom", "lemma":
			rest := strings.TrimSpace(strings.TrimPrefix(b.head, f[0]))
			idx := strings.Index(rest, ":")
			if idx < 0 {
				return fmt.Errorf("%s: bad %s", where, f[0])
			}
			name := strings.TrimSpace(rest[:idx])
			src := strings.TrimSpace(rest[idx+1:])
			e, err := parseCExpr(src)
			if err != nil {
				return fmt.Errorf("%s: %v", where, err)
			}
			ld := &lemmaDecl{pkgPath: pkgPath, name: name, isAxiom: f[0] == "axiom", body: clause{src: src, e: e, where: where}, where: where}
			for _, c := range b.clauses {
				cf := strings.Fields(c)
				if cf[0] == "prop" {
					ld.props = append(ld.props, cf[1:]...)
				}
			}
			cs.lemmas = append(cs.lemmas, ld)
		case "func", "interface":
			fc, err := parseFuncHeader(strings.TrimSpace(b.head[len(f[0]):]), f[0] == "interface")
			if err != nil {
				return fmt.Errorf("%s: %v", where, err)
			}
			fc.pkgPath = pkgPath
			fc.where = where
			fc.loops = map[int]*loopSpec{}
			for ci, c := range b.clauses {
				cf := strings.Fields(c)
				rest := strings.TrimSpace(c[len(cf[0]):])
				cw := fmt.Sprintf("%s(+%d)", where, ci+1)
				mk := func(kind string, n int) (clause, error) {
					e, err := parseCExpr(rest)
					if err != nil {
						return clause{}, fmt.Errorf("%s: %v", cw, err)
					}
					return clause{src: rest, e: e, label: fmt.Sprintf("%s:%d", kind, n), where: cw}, nil
				}
				switch cf[0] {
				case "prop":
					fc.props = append(fc.props, cf[1:]...)
				case "requires":
					cl, err := mk("pre", len(fc.requires)+1)
					if err != nil {
						return err
					}
					fc.requires = append(fc.requires, cl)
				case "ensures":
					cl, err := mk("post", len(fc.ensures)+1)
					if err != nil {
						return err
					}
					fc.ensures = append(fc.ensures, cl)
				case "panics-if":
					cl, err := mk("panicsif", len(fc.panicsIf)+1)
					if err != nil {
						return err
					}
					fc.panicsIf = append(fc.panicsIf, cl)
				case "modifies":
					fc.hasMod = true
					for _, m := range strings.Split(rest, ",") {
						m = strings.TrimSpace(m)
						if m != "" && m != "nothing" {
							fc.modifies = append(fc.modifies, m)
						}
					}
				case "ghost-writes":
					for _, m := range strings.Split(rest, ",") {
						if m = strings.TrimSpace(m); m != "" {
							fc.ghostWrites = append(fc.ghostWrites, m)
						}
					}
				case "defines":
					cl, err := mk("defines", len(fc.defines)+1)
					if err != nil {
						return err
					}
					fc.defines = append(fc.defines, cl)
				case "witness":
					for _, wsrc := range splitTop(rest) {
						e, err := parseCExpr(wsrc)
						if err != nil {
							return fmt.Errorf("%s: %v", cw, err)
						}
						fc.witnesses = append(fc.witnesses, clause{src: wsrc, e: e, label: "witness", where: cw})
					}
				case "modifies-if":
					i := strings.LastIndex(rest, " : ")
					if i < 0 {
						return fmt.Errorf("%s: modifies-if needs `cond : items`", cw)
					}
					e, err := parseCExpr(strings.TrimSpace(rest[:i]))
					if err != nil {
						return fmt.Errorf("%s: %v", cw, err)
					}
					mi := &modIfClause{cond: clause{src: strings.TrimSpace(rest[:i]), e: e, label: "modif", where: cw}}
					for _, m := range strings.Split(rest[i+3:], ",") {
						m = strings.TrimSpace(m)
						if m != "" && m != "nothing" {
							mi.items = append(mi.items, m)
						}
					}
					fc.modIf = mi
				case "preserves":
					for _, m := range strings.Split(rest, ",") {
						m = strings.TrimSpace(m)
						if m != "" {
							fc.preserves = append(fc.preserves, m)
						}
					}
				case "trusted":
					fc.trusted = true
				case "pure":
					fc.pure = true
					fc.hasMod = true
				case "nopanic":
					fc.nopanic = true
				case "maypanic":
					fc.maypanic = true
				case "noframe":
					fc.noframe = true
				case "nil-receiver-ok":
					fc.nilRecvOK = true
				case "index-instances":
					fc.indexInst = true
				case "go-sync":
					fc.goSync = true
				case "noinv":
					fc.noinv = true
				case "refines":
					fc.refines = rest
				case "mode":
				case "loop":
					m := reLoop.FindStringSubmatch(rest)
					if m == nil {
						return fmt.Errorf("%s: bad loop clause %q", cw, rest)
					}
					n, _ := strconv.Atoi(m[1])
					ls := fc.loops[n]
					if ls == nil {
						ls = &loopSpec{}
						fc.loops[n] = ls
					}
					e, err := parseCExpr(m[3])
					if err != nil {
						return fmt.Errorf("%s: %v", cw, err)
					}
					cl := clause{src: m[3], e: e, where: cw}
					if m[2] == "invariant" {
						cl.label = fmt.Sprintf("loop%d-inv:%d", n, len(ls.invariants)+1)
						ls.invariants = append(ls.invariants, cl)
					} else {
						cl.label = fmt.Sprintf("loop%d-dec", n)
						ls.decreases = &cl
					}
				default:
					return fmt.Errorf("%s: unknown clause %q", cw, cf[0])
				}
			}
			k := pkgPath + "::" + fc.key
			if _, dup := cs.funcs[k]; dup {
				return fmt.Errorf("%s: duplicate contract for %s", where, k)
			}
			cs.funcs[k] = fc
			cs.order = append(cs.order, k)
		}
	}
	return nil
}

func parseTypeString(s string) (t *ctype, err error) {
	toks, err := lex(s)
	if err != nil {
		return nil, err
	}
	p := &cparser{toks: toks, src: s}
	defer func() {
		if r := recover(); r != nil {
			if pe, ok := r.(parseErr); ok {
				err = fmt.Errorf("%s in %q", string(pe), s)
				return
			}
			panic(r)
		}
	}()
	t = p.parseType()
	return t, nil
}

func (p *cparser) paramList() (ps []cparam, variadic bool) {
	p.expect("(")
	for !p.isOp(")") {
		var names []string
		names = append(names, p.ident())
		for p.isOp(",") {
			p.next()
			names = append(names, p.ident())
		}
		if p.isOp("..") { // "..." lexed as ".." "."
			p.next()
			p.expect(".")
			variadic = true
			et := p.parseType()
			ty := &ctype{kind: "slice", elem: et}
			for _, n := range names {
				ps = append(ps, cparam{n, ty})
			}
		} else {
			ty := p.parseType()
			for _, n := range names {
				ps = append(ps, cparam{n, ty})
			}
		}
		if p.isOp(",") {
			p.next()
		}
	}
	p.expect(")")
	return
}

// header: [ (recv T) ] name (params) [ (results) | type ]
// for interfaces: Iface.Method(params) (results)
func parseFuncHeader(s string, iface bool) (fc *funcContract, err error) {
	toks, err := lex(s)
	if err != nil {
		return nil, err
	}
	p := &cparser{toks: toks, src: s}
	defer func() {
		if r := recover(); r != nil {
			if pe, ok := r.(parseErr); ok {
				err = fmt.Errorf("%s in %q", string(pe), s)
				return
			}
			panic(r)
		}
	}()
	fc = &funcContract{isIface: iface}
	if iface {
		in := p.ident()
		p.expect(".")
		m := p.ident()
		fc.key = "(" + in + ")." + m
		fc.recvName = "self"
		fc.recvType = &ctype{kind: "name", name: in}
		fc.trusted = true
	} else if p.isOp("(") {
		p.next()
		fc.recvName = p.ident()
		fc.recvType = p.parseType()
		p.expect(")")
		name := p.ident()
		fc.key = "(" + fc.recvType.String() + ")." + name
	} else {
		fc.key = p.ident()
	}
	fc.params, fc.variadic = p.paramList()
	if p.isOp("(") {
		fc.results, _ = p.paramList()
	} else if p.peek().kind != tkEOF {
		ty := p.parseType()
		fc.results = []cparam{{"result", ty}}
	}
	if p.peek().kind != tkEOF {
		p.fail("trailing tokens")
	}
	return fc, nil
}

func parseSpecFunc(s string) (sf *specFunc, err error) {
	// func name(params) type [= expr]
	s = strings.TrimSpace(strings.TrimPrefix(s, "func"))
	var bodySrc string
	// split at first top-level " = "
	depth := 0
	cut := -1
	for i := 0; i < len(s); i++ {
		switch s[i] {
		case '(', '[':
			depth++
		case ')', ']':
			depth--
		case '=':
			if depth == 0 && i > 0 && s[i-1] == ' ' && i+1 < len(s) && s[i+1] == ' ' {
				cut = i
			}
		}
		if cut >= 0 {
			break
		}
	}
	head := s
	if cut >= 0 {
		head = strings.TrimSpace(s[:cut])
		bodySrc = strings.TrimSpace(s[cut+1:])
	}
	toks, err := lex(head)
	if err != nil {
		return nil, err
	}
	p := &cparser{toks: toks, src: head}
	defer func() {
		if r := recover(); r != nil {
			if pe, ok := r.(parseErr); ok {
				err = fmt.Errorf("%s in %q", string(pe), head)
				return
			}
			panic(r)
		}
	}()
	sf = &specFunc{src: s}
	sf.name = p.ident()
	sf.params, _ = p.paramList()
	sf.result = p.parseType()
	if bodySrc != "" {
		sf.body, err = parseCExpr(bodySrc)
		if err != nil {
			return nil, err
		}
	}
	return sf, nil
}

func (cs *contractSet) sortedFuncKeys() []string {
	var ks []string
	for k := range cs.funcs {
		ks = append(ks, k)
	}
	sort.Strings(ks)
	return ks
}

// splitTop splits s at commas that are not nested in parentheses or brackets.
func splitTop(s string) []string {
	var out []string
	d, start := 0, 0
	for i := 0; i < len(s); i++ {
		switch s[i] {
		case '(', '[':
			d++
		case ')', ']':
			d--
		case ',':
			if d == 0 {
				out = append(out, strings.TrimSpace(s[start:i]))
				start = i + 1
			}
		}
	}
	if t := strings.TrimSpace(s[start:]); t != "" {
		out = append(out, t)
	}
	return out
}
