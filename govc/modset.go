package main

// Inferred frames: a field-based, flow-insensitive mod-set analysis over SSA.

import (
	"go/types"
	"sort"
	"strings"

	"golang.org/x/tools/go/ssa"
)

type modEntry struct {
	root  int
	leafT types.Type
	mt    *types.Map
}

// register makes sure g knows the SMT sort of heap key k.
func (me modEntry) register(g *fgen, k string) {
	if _, ok := g.heapSort[k]; ok {
		return
	}
	if me.mt != nil {
		g.mapKeys(me.mt)
		return
	}
	if me.leafT != nil {
		g.heapSort[k] = g.heapSortFor(me.root, g.sortOf(me.leafT))
		g.noteKeyType(k, me.root, me.leafT)
	}
}

type modset struct {
	all    bool
	// heapOnly (with all): every real heap cell may change, ghost variables not in
	// `any` are preserved ("modifies heap").
	heapOnly bool
	// coarse classes: every heap key whose root type/global belongs to one of these
	// packages (mangled prefix), and every scalar element/box/map heap.
	pkgs        map[string]bool
	scalarElems bool
	// preserve: keys explicitly excluded from the coarse classes / heap havoc
	preserve        map[string]bool
	preserveEntries map[string]modEntry // how to register the sort of a preserved key
	any    map[string]modEntry // written through a pre-existing object
	fresh  map[string]modEntry // written only through objects allocated in the same function
	allocs bool
	why    string // why "all"
}

func newModset() *modset {
	return &modset{any: map[string]modEntry{}, fresh: map[string]modEntry{}}
}

// writes: may the mod-set write heap key k (at a pre-existing object)?
func (m *modset) writes(k string) bool {
	if _, ok := m.any[k]; ok {
		return true
	}
	if m.all {
		if m.heapOnly && strings.HasPrefix(k, "G_ghost_") {
			return false
		}
		return !m.preserve[k]
	}
	return m.coarse(k)
}

func (m *modset) union(o *modset) {
	// a key stays preserved only if neither side writes it
	np := map[string]bool{}
	for k := range m.preserve {
		if !o.writes(k) {
			np[k] = true
		}
	}
	for k := range o.preserve {
		if !m.writes(k) {
			np[k] = true
		}
	}
	defer func() { m.preserve = np }()
	for k, v := range o.preserveEntries {
		if m.preserveEntries == nil {
			m.preserveEntries = map[string]modEntry{}
		}
		m.preserveEntries[k] = v
	}
	if o.all {
		if !m.all {
			m.why = o.why
			m.heapOnly = o.heapOnly
		} else {
			m.heapOnly = m.heapOnly && o.heapOnly
		}
		m.all = true
	}
	for k, v := range o.any {
		m.any[k] = v
	}
	for k, v := range o.fresh {
		m.fresh[k] = v
	}
	if o.allocs {
		m.allocs = true
	}
	for p := range o.pkgs {
		if m.pkgs == nil {
			m.pkgs = map[string]bool{}
		}
		m.pkgs[p] = true
	}
	if o.scalarElems {
		m.scalarElems = true
	}
}

// coarse reports whether key is covered by the coarse classes of the mod-set.
func (m *modset) coarse(key string) bool {
	if len(key) < 3 {
		return false
	}
	if strings.HasPrefix(key, "G_ghost_") || m.preserve[key] {
		return false
	}
	rest := key[2:]
	if strings.HasPrefix(key, "MH_") || strings.HasPrefix(key, "MV_") || strings.HasPrefix(key, "ML_") {
		return m.scalarElems
	}
	for p := range m.pkgs {
		if strings.HasPrefix(rest, p) {
			return true
		}
	}
	if m.scalarElems && (strings.HasPrefix(key, "E_") || strings.HasPrefix(key, "B_")) {
		// scalar element / box heaps are named after an SMT sort, not a package type
		switch {
		case strings.HasPrefix(rest, "b_"):
			return true
		case strings.HasPrefix(rest, "Int"), strings.HasPrefix(rest, "Bool"), strings.HasPrefix(rest, "String"),
			strings.HasPrefix(rest, "Slice"), strings.HasPrefix(rest, "Iface"), strings.HasPrefix(rest, "__"), strings.HasPrefix(rest, "_Array"), strings.HasPrefix(rest, "arr_"):
			return true
		}
	}
	return false
}

func (m *modset) hasCoarse() bool { return len(m.pkgs) > 0 || m.scalarElems }

func (m *modset) keys() []string {
	var ks []string
	for k := range m.any {
		ks = append(ks, k)
	}
	sort.Strings(ks)
	return ks
}

// keygen is a throw-away fgen used only to name heap keys/sorts.
func (w *world) keygen() *fgen {
	return newFgen(w, nil, nil)
}

type sloc struct {
	root    int
	rootT   string
	path    []int
	typ     types.Type
	isAlloc bool
	sub     bool
	contT   types.Type
}

// staticLoc resolves an address-valued SSA value to a heap location class.
func (g *fgen) staticLoc(v ssa.Value) *sloc {
	switch x := v.(type) {
	case *ssa.FieldAddr:
		st := x.X.Type().Underlying().(*types.Pointer).Elem()
		s := st.Underlying().(*types.Struct)
		ft := s.Field(x.Field).Type()
		switch x.X.(type) {
		case *ssa.FieldAddr, *ssa.IndexAddr:
			in := g.staticLoc(x.X)
			if in == nil || in.sub {
				return nil
			}
			return &sloc{root: in.root, rootT: in.rootT, path: append(append([]int{}, in.path...), x.Field), typ: ft, isAlloc: in.isAlloc}
		}
		_, isAlloc := x.X.(*ssa.Alloc)
		return &sloc{root: rootField, rootT: typeName(st), path: []int{x.Field}, typ: ft, isAlloc: isAlloc}
	case *ssa.IndexAddr:
		switch u := x.X.Type().Underlying().(type) {
		case *types.Slice:
			_, isAlloc := x.X.(*ssa.MakeSlice)
			return &sloc{root: rootElem, rootT: g.elemKeyName(u.Elem()), typ: u.Elem(), isAlloc: isAlloc}
		case *types.Pointer:
			a := u.Elem().Underlying().(*types.Array)
			switch x.X.(type) {
			case *ssa.FieldAddr, *ssa.IndexAddr:
				in := g.staticLoc(x.X)
				if in == nil {
					return nil
				}
				return &sloc{root: in.root, rootT: in.rootT, path: in.path, typ: a.Elem(), isAlloc: in.isAlloc, sub: true, contT: u.Elem()}
			}
			_, isAlloc := x.X.(*ssa.Alloc)
			return &sloc{root: rootElem, rootT: g.elemKeyName(a.Elem()), typ: a.Elem(), isAlloc: isAlloc}
		}
	case *ssa.Global:
		et := x.Type().Underlying().(*types.Pointer).Elem()
		name := x.Name()
		if x.Pkg != nil {
			name = x.Pkg.Pkg.Path() + "." + x.Name()
		}
		return &sloc{root: rootGlobal, rootT: mangle(name), typ: et}
	case *ssa.Alloc:
		et := x.Type().Underlying().(*types.Pointer).Elem()
		return g.ptrSloc(et, true)
	}
	if p, ok := v.Type().Underlying().(*types.Pointer); ok {
		return g.ptrSloc(p.Elem(), false)
	}
	return nil
}

func (g *fgen) ptrSloc(et types.Type, isAlloc bool) *sloc {
	if _, ok := isStructVal(et); ok {
		return &sloc{root: rootField, rootT: typeName(et), typ: et, isAlloc: isAlloc}
	}
	if a, ok := et.Underlying().(*types.Array); ok {
		return &sloc{root: rootElem, rootT: g.elemKeyName(a.Elem()), typ: a.Elem(), isAlloc: isAlloc}
	}
	return &sloc{root: rootBox, rootT: g.boxKeyName(et), typ: et, isAlloc: isAlloc}
}

func (g *fgen) slocLeaves(sl *sloc, path []int, t types.Type, out map[string]modEntry) {
	if sl.sub {
		// container leaf: the array cell
		out[heapKey(sl.root, sl.rootT, sl.path)] = modEntry{sl.root, sl.contT, nil}
		return
	}
	if s, ok := isStructVal(t); ok {
		for i := 0; i < s.NumFields(); i++ {
			g.slocLeaves(sl, append(append([]int{}, path...), i), s.Field(i).Type(), out)
		}
		return
	}
	out[heapKey(sl.root, sl.rootT, path)] = modEntry{sl.root, t, nil}
}

func (w *world) modsetOf(fn *ssa.Function) *modset {
	if ms, ok := w.modsets[fn]; ok {
		if ms == nil { // in progress (recursion): optimistic, fixed by caller's union
			return newModset()
		}
		return ms
	}
	w.modsets[fn] = nil
	ms := newModset()
	if fn.Blocks == nil {
		ms.all, ms.heapOnly = true, false
		ms.why = "no body: " + fn.String()
	} else {
		kg := w.keygen()
		for _, b := range fn.Blocks {
			for _, in := range b.Instrs {
				w.instrMods(kg, in, ms)
			}
		}
	}
	if fc := w.contractFor(fn); fc != nil {
		kg := w.keygen()
		for _, name := range fc.ghostWrites {
			if k, gv := kg.ghostKey(name); gv != nil {
				ms.any[k] = modEntry{rootGlobal, nil, nil}
			}
		}
	}
	// recursion: iterate once more if self-recursive (cheap fixpoint for direct recursion)
	w.modsets[fn] = ms
	return ms
}

func (w *world) contractFor(fn *ssa.Function) *funcContract {
	pp, k := funcKey(fn)
	fc := w.cs.funcs[pp+"::"+k]
	if fc != nil && !contractMatches(fc, fn) {
		// the function's signature no longer matches the contract header: the contract
		// is stale and is ignored (callers fall back to the inferred frame)
		w.stale[shortPkg(pp)+"."+k] = true
		return nil
	}
	return fc
}

// contractMatches: parameter and result counts of the contract header equal the
// function's.
func contractMatches(fc *funcContract, fn *ssa.Function) bool {
	return len(fc.params) == fn.Signature.Params().Len() && len(fc.results) == fn.Signature.Results().Len()
}

func (w *world) instrMods(kg *fgen, in ssa.Instruction, ms *modset) {
	switch x := in.(type) {
	case *ssa.Store:
		sl := kg.staticLoc(x.Addr)
		if sl == nil {
			ms.all, ms.heapOnly = true, false
			ms.why = "store through unresolved address"
			return
		}
		dst := ms.any
		if sl.isAlloc {
			dst = ms.fresh
		}
		kg.slocLeaves(sl, sl.path, sl.typ, dst)
	case *ssa.MapUpdate:
		mt := x.Map.Type().Underlying().(*types.Map)
		h, v, l := kg.mapKeys(mt)
		dst := ms.any
		if _, ok := x.Map.(*ssa.MakeMap); ok {
			dst = ms.fresh
		}
		dst[h] = modEntry{rootField, nil, mt}
		dst[v] = modEntry{rootField, nil, mt}
		dst[l] = modEntry{rootField, nil, mt}
	case *ssa.Alloc, *ssa.MakeSlice, *ssa.MakeMap, *ssa.MakeClosure, *ssa.MakeInterface:
		ms.allocs = true
		if a, ok := x.(*ssa.Alloc); ok {
			// zero-initialisation writes the fresh cells
			sl := kg.staticLoc(a)
			if sl != nil {
				kg.slocLeaves(sl, sl.path, sl.typ, ms.fresh)
			}
		}
		if mk, ok := x.(*ssa.MakeSlice); ok {
			et := mk.Type().Underlying().(*types.Slice).Elem()
			sl := &sloc{root: rootElem, rootT: kg.elemKeyName(et), typ: et}
			kg.slocLeaves(sl, nil, et, ms.fresh)
		}
		if mk, ok := x.(*ssa.MakeMap); ok {
			mt := mk.Type().Underlying().(*types.Map)
			h, v, l := kg.mapKeys(mt)
			ms.fresh[h] = modEntry{rootField, nil, mt}
			ms.fresh[v] = modEntry{rootField, nil, mt}
			ms.fresh[l] = modEntry{rootField, nil, mt}
		}
	case *ssa.Go, *ssa.Send, *ssa.Select:
		ms.all, ms.heapOnly = true, false
		ms.why = "concurrency"
	case ssa.CallInstruction:
		w.callMods(kg, x, ms)
	}
}

func (w *world) callMods(kg *fgen, x ssa.CallInstruction, ms *modset) {
	c := x.Common()
	if c.IsInvoke() {
		pp, k := ifaceMethodKey(c.Method)
		if fc := w.cs.funcs[pp+"::"+k]; fc != nil && fc.hasMod {
			w.declMods(kg, fc, ms)
			return
		}
		ms.all, ms.heapOnly = true, false
		ms.why = "interface call " + c.Method.FullName()
		return
	}
	switch f := c.Value.(type) {
	case *ssa.Builtin:
		switch f.Name() {
		case "append":
			if len(c.Args) > 0 {
				if st, ok := c.Args[0].Type().Underlying().(*types.Slice); ok {
					sl := &sloc{root: rootElem, rootT: kg.elemKeyName(st.Elem()), typ: st.Elem()}
					kg.slocLeaves(sl, nil, st.Elem(), ms.any)
					ms.allocs = true
				}
			}
		case "copy":
			if st, ok := c.Args[0].Type().Underlying().(*types.Slice); ok {
				sl := &sloc{root: rootElem, rootT: kg.elemKeyName(st.Elem()), typ: st.Elem()}
				kg.slocLeaves(sl, nil, st.Elem(), ms.any)
			}
		case "delete", "clear":
			if mt, ok := c.Args[0].Type().Underlying().(*types.Map); ok {
				h, v, l := kg.mapKeys(mt)
				ms.any[h] = modEntry{rootField, nil, mt}
				ms.any[v] = modEntry{rootField, nil, mt}
				ms.any[l] = modEntry{rootField, nil, mt}
			} else if st, ok := c.Args[0].Type().Underlying().(*types.Slice); ok {
				sl := &sloc{root: rootElem, rootT: kg.elemKeyName(st.Elem()), typ: st.Elem()}
				kg.slocLeaves(sl, nil, st.Elem(), ms.any)
			}
		}
		return
	}
	callee := c.StaticCallee()
	if callee == nil {
		if _, pure := kg.pureFieldCall(c); pure {
			return // declared pure: no heap effect
		}
		o := newModset()
		o.all, o.heapOnly, o.why = true, true, "dynamic call"
		ms.union(o)
		return
	}
	if fc := w.contractFor(callee); fc != nil && fc.hasMod {
		tmp := newModset()
		w.declMods(kg, fc, tmp)
		// a `modifies p` item (p a pointer parameter / receiver) whose argument is a local
		// of the caller writes only that fresh local
		if !tmp.all {
			argOf := map[string]ssa.Value{}
			as := c.Args
			if callee.Signature.Recv() != nil && len(as) > 0 {
				argOf[fc.recvName] = as[0]
				as = as[1:]
			}
			for i, p := range fc.params {
				if i < len(as) {
					argOf[p.name] = as[i]
				}
			}
			other := map[string]bool{}
			var locals []map[string]modEntry
			for _, item := range fc.modifies {
				item = strings.TrimSpace(item)
				keys, err := kg.modKeys(fc, item)
				if err != nil {
					continue
				}
				if a, ok := argOf[item]; ok {
					if _, isAlloc := a.(*ssa.Alloc); isAlloc {
						locals = append(locals, keys)
						continue
					}
				}
				for _, k := range sortedKeys(keys) {
					other[k] = true
				}
			}
			for _, keys := range locals {
				for _, k := range sortedKeys(keys) {
					me := keys[k]
					if !other[k] && !tmp.coarse(k) {
						delete(tmp.any, k)
						tmp.fresh[k] = me
					}
				}
			}
		}
		ms.union(tmp)
		if callee.Blocks != nil {
			cm := w.modsetOf(callee)
			for k, v := range cm.fresh {
				ms.fresh[k] = v
			}
		}
		ms.allocs = true
		return
	}
	if callee.Blocks == nil && w.isLibrary(callee) {
		ms.union(w.libraryFrame(kg, callee, c.Args))
		return
	}
	cm := w.modsetOf(callee)
	if cm.all {
		why := "call to " + callee.String() + " (" + cm.why + ")"
		ms.union(cm)
		ms.why = why
		return
	}
	ms.union(cm)
}

// isLibrary: the function belongs to a package outside the repository module.
func (w *world) isLibrary(fn *ssa.Function) bool {
	pp, _ := funcKey(fn)
	return pp != "" && pp != modPath && !strings.HasPrefix(pp, modPath+"/")
}

// libraryFrame is the default frame assumed for an uncontracted library function:
// it writes only memory reachable from its pointer/slice/map arguments (one level),
// treats interface-typed arguments as read-only, and may run closures passed to it.
func (w *world) libraryFrame(kg *fgen, callee *ssa.Function, args []ssa.Value) *modset {
	ms := newModset()
	w.libFrames[callee.String()] = true
	ms.allocs = true
	for _, a := range args {
		if mc, ok := a.(*ssa.MakeClosure); ok {
			if f, ok := mc.Fn.(*ssa.Function); ok {
				ms.union(w.modsetOf(f))
			}
			continue
		}
		switch u := a.Type().Underlying().(type) {
		case *types.Slice:
			sl := &sloc{root: rootElem, rootT: kg.elemKeyName(u.Elem()), typ: u.Elem()}
			kg.slocLeaves(sl, nil, u.Elem(), ms.any)
		case *types.Pointer:
			sl := kg.ptrSloc(u.Elem(), false)
			kg.slocLeaves(sl, sl.path, sl.typ, ms.any)
		case *types.Map:
			h, v, l := kg.mapKeys(u)
			ms.any[h] = modEntry{rootField, nil, u}
			ms.any[v] = modEntry{rootField, nil, u}
			ms.any[l] = modEntry{rootField, nil, u}
		case *types.Signature:
			if f, isFn := a.(*ssa.Function); isFn {
				ms.union(w.modsetOf(f))
			} else {
				ms.all, ms.heapOnly = true, false
				ms.why = "function value passed to library function " + callee.String()
			}
		}
	}
	return ms
}

// declMods adds the declared modifies set of a contract (coarse: whole heap keys).
func (w *world) declMods(kg *fgen, fc *funcContract, out *modset) {
	ms := newModset()
	defer func() { out.union(ms) }()
	for _, item := range fc.preserves {
		keys, err := kg.modKeys(fc, item)
		if err != nil {
			continue
		}
		if ms.preserve == nil {
			ms.preserve = map[string]bool{}
		}
		for _, k := range sortedKeys(keys) {
			e := keys[k]
			e.register(kg, k)
			ms.preserve[k] = true
			if out.preserveEntries == nil {
				out.preserveEntries = map[string]modEntry{}
			}
			out.preserveEntries[k] = e
		}
	}
	for _, m := range fc.modifies {
		if m == "*" {
			ms.all, ms.heapOnly = true, false
			ms.why = "modifies * on " + fc.key
			return
		}
		if m == "elems" {
			ms.scalarElems = true
			continue
		}
		if strings.HasPrefix(m, "pkg(") && strings.HasSuffix(m, ")") {
			name := strings.TrimSpace(m[4 : len(m)-1])
			p := kg.findPkgByName(w.allTPkg[fc.pkgPath], name)
			if p == nil {
				ms.all, ms.heapOnly = true, false
				ms.why = "modifies pkg(" + name + "): unknown package"
				return
			}
			if ms.pkgs == nil {
				ms.pkgs = map[string]bool{}
			}
			ms.pkgs[mangle(p.Path()+".")] = true
			continue
		}
		if m == "heap" {
			if !ms.all {
				ms.all, ms.heapOnly, ms.why = true, true, "modifies heap on "+fc.key
			}
			continue
		}
		keys, err := kg.modKeys(fc, m)
		if err != nil {
			ms.all, ms.heapOnly = true, false
			ms.why = err.Error()
			return
		}
		for _, k := range sortedKeys(keys) {
			e := keys[k]
			ms.any[k] = e
		}
	}
}

// modKeys resolves a modifies item to heap keys. Forms:
//
//	ghostvar | x.f.g (x a receiver/param) | T.f (type-level) | elems(x) / elems(x.f) | pkg.Var
func (g *fgen) modKeys(fc *funcContract, item string) (map[string]modEntry, error) {
	out := map[string]modEntry{}
	pkg := g.w.allTPkg[fc.pkgPath]
	item = strings.TrimSpace(item)
	if g.w.cs.ghosts[item] != nil {
		k, _ := g.ghostKey(item)
		out[k] = modEntry{rootGlobal, nil, nil}
		return out, nil
	}
	if strings.HasPrefix(item, "cells(") && strings.HasSuffix(item, ")") {
		// type-level: every pointer cell that holds a value of this type
		ct, err := parseTypeString(strings.TrimSpace(item[6 : len(item)-1]))
		if err != nil {
			return nil, err
		}
		t, err := g.resolveType(ct, pkg)
		if err != nil {
			return nil, err
		}
		psl := g.ptrSloc(t, false)
		g.slocLeaves(psl, psl.path, psl.typ, out)
		return out, nil
	}
	elems := false
	if strings.HasPrefix(item, "elems(") && strings.HasSuffix(item, ")") {
		elems = true
		item = item[6 : len(item)-1]
		if strings.HasPrefix(item, "[]") || strings.HasPrefix(item, "map[") {
			// type-level: every slice / map of this type
			ct, err := parseTypeString(item)
			if err != nil {
				return nil, err
			}
			t, err := g.resolveType(ct, pkg)
			if err != nil {
				return nil, err
			}
			switch u := t.Underlying().(type) {
			case *types.Slice:
				esl := &sloc{root: rootElem, rootT: g.elemKeyName(u.Elem()), typ: u.Elem()}
				g.slocLeaves(esl, nil, u.Elem(), out)
			case *types.Map:
				h, v, l := g.mapKeys(u)
				out[h] = modEntry{rootField, nil, u}
				out[v] = modEntry{rootField, nil, u}
				out[l] = modEntry{rootField, nil, u}
			}
			return out, nil
		}
	}
	// `*x.f`: the object the pointer-valued path points to (type-level: every object of
	// that type)
	deref := false
	if strings.HasPrefix(item, "*") && !elems {
		deref = true
		item = strings.TrimSpace(item[1:])
	}
	parts := strings.Split(item, ".")
	var cur types.Type
	// first part: receiver / param / type name / package
	first := parts[0]
	rest := parts[1:]
	if first == fc.recvName && fc.recvType != nil {
		t, err := g.resolveType(fc.recvType, pkg)
		if err != nil {
			return nil, err
		}
		cur = t
	} else {
		for _, p := range fc.params {
			if p.name == first {
				t, err := g.resolveType(p.typ, pkg)
				if err != nil {
					return nil, err
				}
				cur = t
			}
		}
		for _, p := range fc.results {
			if p.name == first {
				t, err := g.resolveType(p.typ, pkg)
				if err != nil {
					return nil, err
				}
				cur = t
			}
		}
	}
	if cur == nil {
		if t, err := g.resolveType(&ctype{kind: "name", name: first}, pkg); err == nil {
			cur = types.NewPointer(t)
		} else if p := g.findPkgByName(pkg, first); p != nil && len(rest) > 0 {
			o := p.Scope().Lookup(rest[0])
			if v, ok := o.(*types.Var); ok {
				k := g.globalKey(v)
				if len(rest) == 1 {
					out[k] = modEntry{rootGlobal, v.Type(), nil}
					return out, nil
				}
				cur = v.Type()
				rest = rest[1:]
			} else if tn, ok := o.(*types.TypeName); ok {
				cur = types.NewPointer(tn.Type())
				rest = rest[1:]
			}
		}
	}
	if cur == nil {
		return nil, transErr("modifies: cannot resolve " + item)
	}
	// walk fields
	var sl *sloc
	for i, f := range rest {
		var pk *types.Package
		if n, ok := derefNamed(cur); ok && n.Obj().Pkg() != nil {
			pk = n.Obj().Pkg()
		}
		obj, path, _ := types.LookupFieldOrMethod(cur, true, pk, f)
		if _, ok := obj.(*types.Var); !ok {
			return nil, transErr("modifies: no field " + f + " in " + cur.String())
		}
		for _, idx := range path {
			if s, T, ok := derefStruct(cur); ok {
				sl = &sloc{root: rootField, rootT: typeName(T), path: []int{idx}, typ: s.Field(idx).Type()}
				cur = s.Field(idx).Type()
			} else if s, ok := cur.Underlying().(*types.Struct); ok && sl != nil {
				sl = &sloc{root: sl.root, rootT: sl.rootT, path: append(append([]int{}, sl.path...), idx), typ: s.Field(idx).Type()}
				cur = s.Field(idx).Type()
			} else {
				return nil, transErr("modifies: bad path at " + f)
			}
		}
		_ = i
	}
	if deref {
		pt, ok := cur.Underlying().(*types.Pointer)
		if !ok {
			return nil, transErr("modifies: " + item + " is not a pointer")
		}
		psl := g.ptrSloc(pt.Elem(), false)
		g.slocLeaves(psl, psl.path, psl.typ, out)
		return out, nil
	}
	if elems {
		switch u := cur.Underlying().(type) {
		case *types.Slice:
			esl := &sloc{root: rootElem, rootT: g.elemKeyName(u.Elem()), typ: u.Elem()}
			g.slocLeaves(esl, nil, u.Elem(), out)
			return out, nil
		case *types.Map:
			mt := u
			h, v, l := g.mapKeys(u)
			out[h] = modEntry{rootField, nil, mt}
			out[v] = modEntry{rootField, nil, mt}
			out[l] = modEntry{rootField, nil, mt}
			return out, nil
		}
		return nil, transErr("modifies: elems() of non-slice " + item)
	}
	if sl == nil {
		// whole object behind a pointer
		if p, ok := cur.Underlying().(*types.Pointer); ok {
			sl = g.ptrSloc(p.Elem(), false)
		} else {
			return nil, transErr("modifies: not a location: " + item)
		}
	}
	g.slocLeaves(sl, sl.path, sl.typ, out)
	return out, nil
}
