#!/bin/sh
# Build the verifier offline and warm the Go build cache for /repo (tag verif).
set -e
export GOFLAGS=-mod=mod GOPROXY=off GOSUMDB=off GOTOOLCHAIN=local
cd /verif/govc
go build -o /verif/bin/govc .
cd /repo
go build -tags verif ./... >/dev/null 2>&1 || true
mkdir -p /verif/out /verif/evidence
