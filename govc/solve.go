package main

import (
	"bytes"
	"context"
	"fmt"
	"os"
	"os/exec"
	"path/filepath"
	"strings"
	"sync"
	"time"
)

type solverSpec struct {
	name string
	argv func(file string, timeoutS int) []string
}

var solvers = []solverSpec{
	{"z3-new", func(f string, t int) []string { return []string{"z3-new", fmt.Sprintf("-T:%d", t), f} }},
	{"z3", func(f string, t int) []string { return []string{"/usr/bin/z3", fmt.Sprintf("-T:%d", t), f} }},
	{"cvc5", func(f string, t int) []string {
		return []string{"cvc5", "--incremental", fmt.Sprintf("--tlimit=%d", t*1000), f}
	}},
}

// retrySolvers: the second attempt at an undecided obligation also varies the solvers'
// random seeds: a query that is decided in under a second with one ordering of its
// search can run for minutes with another (seen on Comparator.Compare#post:1), and a
// harmless edit elsewhere can flip it; different seeds give it several chances.
var retrySolvers = []solverSpec{
	{"z3-new/seed7", func(f string, t int) []string {
		return []string{"z3-new", fmt.Sprintf("-T:%d", t), "smt.random_seed=7", "sat.random_seed=7", f}
	}},
	{"z3-new/seed23", func(f string, t int) []string {
		return []string{"z3-new", fmt.Sprintf("-T:%d", t), "smt.random_seed=23", "sat.random_seed=23", "smt.arith.random_initial_value=true", f}
	}},
	{"z3/seed7", func(f string, t int) []string {
		return []string{"/usr/bin/z3", fmt.Sprintf("-T:%d", t), "smt.random_seed=7", "sat.random_seed=7", f}
	}},
	{"cvc5/seed5", func(f string, t int) []string {
		return []string{"cvc5", "--incremental", "--seed=5", fmt.Sprintf("--tlimit=%d", t*1000), f}
	}},
}

var procSem = make(chan struct{}, 16)

func sanitize(s string) string {
	h := hashString(s)
	c := reNonAlnum.ReplaceAllString(s, "_")
	if len(c) > 120 {
		c = c[:120]
	}
	if c != s {
		c = fmt.Sprintf("%s_%06x", c, h&0xffffff)
	}
	return c
}

type solveOut struct {
	solver string
	status string // unsat | sat | unknown | timeout | error
	ms     int64
	output string
}

func runOne(ctx context.Context, sp solverSpec, file string, timeoutS int) solveOut {
	procSem <- struct{}{}
	defer func() { <-procSem }()
	if ctx.Err() != nil {
		return solveOut{sp.name, "cancelled", 0, ""}
	}
	argv := sp.argv(file, timeoutS)
	cctx, cancel := context.WithTimeout(ctx, time.Duration(timeoutS+2)*time.Second)
	defer cancel()
	cmd := exec.CommandContext(cctx, argv[0], argv[1:]...)
	var out bytes.Buffer
	cmd.Stdout = &out
	cmd.Stderr = &out
	t0 := time.Now()
	_ = cmd.Run()
	ms := time.Since(t0).Milliseconds()
	text := out.String()
	first := strings.TrimSpace(strings.SplitN(text, "\n", 2)[0])
	st := "error"
	switch {
	case first == "unsat":
		st = "unsat"
	case first == "sat":
		st = "sat"
	case first == "unknown":
		st = "unknown"
	case first == "timeout" || cctx.Err() != nil || strings.Contains(first, "interrupted") || strings.Contains(first, "timeout"):
		st = "timeout"
		if ctx.Err() != nil {
			st = "cancelled"
		}
	}
	return solveOut{sp.name, st, ms, text}
}

// solve discharges one obligation with the solver portfolio.
func solve(o *obligation, outDir string, timeoutS int, all bool) {
	if o.expect != "sat" && o.goal == "true" {
		o.status, o.solver = "unsat", "syntactic"
		return
	}
	if o.expect != "sat" && o.goal == "false" && o.guard == "true" && o.kind == "frame" {
		o.status, o.solver = "sat", "syntactic"
		return
	}
	if o.expect == "sat" && timeoutS > 4 {
		timeoutS = 4 // cover checks: a quick satisfiability probe
	}
	if o.quickOnly && timeoutS > 6 {
		timeoutS = 6 // known findings: only checked for "now discharges"
	}
	script := o.script()
	if len(script) > 4<<20 {
		o.status, o.solver = "unknown", "vc-too-large"
		return
	}
	file := filepath.Join(outDir, sanitize(o.name)+".smt2")
	if err := os.WriteFile(file, []byte(script+"(get-model)\n"), 0o644); err != nil {
		o.status = "error"
		return
	}
	ctx, cancel := context.WithCancel(context.Background())
	defer cancel()
	portfolio := solvers
	if o.retried {
		portfolio = append(append([]solverSpec{}, solvers...), retrySolvers...)
	}
	ch := make(chan solveOut, len(portfolio))
	var wg sync.WaitGroup
	for _, sp := range portfolio {
		wg.Add(1)
		go func(sp solverSpec) {
			defer wg.Done()
			ch <- runOne(ctx, sp, file, timeoutS)
		}(sp)
	}
	go func() { wg.Wait(); close(ch) }()
	var results []solveOut
	decided := false
	for r := range ch {
		results = append(results, r)
		if (r.status == "unsat" || r.status == "sat") && !decided {
			decided = true
			o.status, o.solver, o.ms, o.model = r.status, r.solver, r.ms, r.output
			if !all {
				cancel()
			}
		}
	}
	if decided {
		if all {
			for _, r := range results {
				if (r.status == "sat" || r.status == "unsat") && r.status != o.status {
					o.status = "disagree"
					o.model += "\n--- " + r.solver + ": " + r.status
				}
			}
		}
		return
	}
	o.status = "unknown"
	var maxms int64
	for _, r := range results {
		if r.ms > maxms {
			maxms = r.ms
		}
		if r.status == "timeout" {
			o.status = "timeout"
		}
		if r.status == "error" && o.model == "" {
			o.model = r.solver + ": " + firstLines(r.output, 5)
		}
	}
	allErr := true
	for _, r := range results {
		if r.status != "error" {
			allErr = false
		}
	}
	if allErr {
		o.status = "error"
	}
	o.ms = maxms
}

func firstLines(s string, n int) string {
	ls := strings.Split(s, "\n")
	if len(ls) > n {
		ls = ls[:n]
	}
	return strings.Join(ls, "\n")
}

// noRetry: runs that solve obligations not expected to discharge (baseline, -all)
var noRetry bool

func solveAll(obls []*obligation, outDir string, timeoutS int, all bool) {
	os.MkdirAll(outDir, 0o755)
	var wg sync.WaitGroup
	sem := make(chan struct{}, 12)
	for _, o := range obls {
		wg.Add(1)
		sem <- struct{}{}
		go func(o *obligation) {
			defer wg.Done()
			defer func() { <-sem }()
			solve(o, outDir, timeoutS, all)
		}(o)
	}
	wg.Wait()
	// Second chance for obligations that ran out of time while the machine was busy with
	// the bulk of the queries: solved again, few at a time, with twice the time.  Only a
	// result that is still undecided then is reported.
	var again []*obligation
	for _, o := range obls {
		if (o.status == "timeout" || o.status == "unknown") && o.expect != "sat" && !o.quickOnly && !o.noRetry && o.solver != "vc-too-large" {
			again = append(again, o)
		}
	}
	if len(again) == 0 || len(again) > 60 || noRetry {
		return
	}
	sem2 := make(chan struct{}, 4)
	for _, o := range again {
		wg.Add(1)
		sem2 <- struct{}{}
		go func(o *obligation) {
			defer wg.Done()
			defer func() { <-sem2 }()
			first, firstMs := o.status, o.ms
			o.model = ""
			o.retried = true
			solve(o, outDir, 2*timeoutS, all)
			if o.status == "timeout" || o.status == "unknown" {
				o.ms += firstMs
			}
			_ = first
		}(o)
	}
	wg.Wait()
}
