package main

import (
	"encoding/json"
	"fmt"
	"os"
	"path/filepath"
	"sort"
	"strings"
	"time"
)

type oblEvidence struct {
	Name     string `json:"name"`
	Function string `json:"function"`
	Kind     string `json:"kind"`
	Status   string `json:"status"`
	Solver   string `json:"solver,omitempty"`
	Ms       int64  `json:"ms"`
	Claimed  bool   `json:"claimed"`
	Src      string `json:"src,omitempty"`
	Pos      string `json:"pos,omitempty"`
}

func report(prop, tier string, seed int, ps *propSpec, w *world, rr *runResult, t0 time.Time, tLoad time.Duration, verbose bool) int {
	var lg ledger
	haveLedger := loadJSON(filepath.Join(verifDir, "baseline", prop+".json"), &lg) == nil
	if !haveLedger {
		fmt.Fprintf(os.Stderr, "no baseline ledger for %s: nothing is claimed\n", prop)
		return 2
	}
	var kfs []knownFinding
	loadJSON(filepath.Join(verifDir, "known_findings.json"), &kfs)
	known := map[string]knownFinding{}
	for _, k := range kfs {
		if k.Property == prop && k.Status == "finding" {
			known[k.Obligation] = k
		}
	}

	var evs []oblEvidence
	claimed, discharged := 0, 0
	var solverMs int64
	bySolver := map[string]int{}
	var violations []*obligation
	var vacuous []string
	var undecidedNotClaimed []string
	knownSeen := map[string]bool{}
	present := map[string]bool{}
	for _, o := range rr.obls {
		present[o.name] = true
		solverMs += o.ms
		if o.expect == "sat" {
			if o.status == "unsat" {
				vacuous = append(vacuous, o.name)
			}
			continue
		}
		_, inLedger := lg.Obligations[o.name]
		isClaimed := inLedger || lg.isClaimed(o) || claimEverything
		ok := o.status == "unsat"
		if kf, isKnown := lookupKnown(known, o.name); isKnown {
			if !ok {
				if !knownSeen[kf.What] {
					fmt.Printf("KNOWN-FINDING: property=%s %s [%s]\n", prop, kf.What, o.name)
				}
				knownSeen[kf.What] = true
			} else {
				fmt.Printf("NOTE: known finding %s now discharges (consider marking it fixed)\n", o.name)
			}
			evs = append(evs, oblEvidence{o.name, o.fn, o.kind, "known-finding:" + o.status, o.solver, o.ms, false, o.src, o.pos})
			continue
		}
		if isClaimed {
			claimed++
			if ok {
				discharged++
				bySolver[o.solver]++
			} else {
				violations = append(violations, o)
			}
		} else if !ok {
			undecidedNotClaimed = append(undecidedNotClaimed, fmt.Sprintf("%s [%s]", o.name, o.status))
		}
		evs = append(evs, oblEvidence{o.name, o.fn, o.kind, o.status, o.solver, o.ms, isClaimed, o.src, o.pos})
	}
	// contracts whose function vanished / ledger obligations that no longer exist
	var missing []string
	for name := range lg.Obligations {
		if !present[name] {
			missing = append(missing, name)
		}
	}
	sort.Strings(missing)

	exit := 0
	if len(vacuous) > 0 {
		for _, v := range vacuous {
			fmt.Printf("BROKEN: vacuity check failed: %s is unsatisfiable (contract or assumptions contradictory)\n", v)
		}
		exit = 2
	}
	replayDir := filepath.Join(verifDir, "out", "replay", prop)
	os.MkdirAll(replayDir, 0o755)
	for _, o := range violations {
		path, found := replay(w, o, replayDir)
		line := fmt.Sprintf("VIOLATION property=%s replay=%s obligation=%s status=%s", prop, path, o.name, o.status)
		if !found {
			line += " no-failing-input-found"
		}
		fmt.Println(line)
		if exit == 0 {
			exit = 1
		}
	}

	// evidence
	var fnNames, oosNames []string
	assum := map[string]bool{}
	usedContracts := map[string]bool{}
	for _, f := range rr.funcs {
		if len(f.oos) > 0 {
			oosNames = append(oosNames, f.fn+": "+strings.Join(dedup(f.oos), "; "))
			continue
		}
		fnNames = append(fnNames, f.fn)
		for _, a := range f.assum {
			assum[a] = true
		}
		for _, u := range f.used {
			usedContracts[u] = true
		}
	}
	var trusted []string
	trusted = append(trusted, "golang.org/x/tools go/ssa builder (SSA is built from the same typed syntax the compiler sees)",
		"govc VC generator (/verif/govc) and its memory model (Burstall-Bornat heap per field; slices as (arr,off,len,cap))",
		"SMT solvers: z3 4.8.12, z3-new 5.1.0, cvc5 1.0.x (first definitive answer wins)")
	// contracts relied upon at call sites: trusted ones, and ones whose own verification
	// is incomplete (or not part of this property's run) — both are assumptions.
	undisByFn := map[string]int{}
	verifiedFn := map[string]bool{}
	for _, f := range rr.funcs {
		if len(f.oos) == 0 {
			verifiedFn[f.fn] = true
		}
	}
	for _, o := range rr.obls {
		if o.expect != "sat" && o.status != "unsat" && !lg.isClaimed(o) {
			undisByFn[o.fn]++
		}
	}
	var assumedContracts []string
	for u := range usedContracts {
		for _, fc := range w.cs.funcs {
			if shortPkg(fc.pkgPath)+"."+fc.key == u {
				switch {
				case fc.trusted || fc.isIface:
					trusted = append(trusted, "trusted contract (not checked against a body): "+u+" ["+fc.where+"]")
				case !verifiedFn[u]:
					assumedContracts = append(assumedContracts, u+": contract used at call sites, its body is not verified in this property's run")
				case undisByFn[u] > 0:
					assumedContracts = append(assumedContracts, fmt.Sprintf("%s: contract used at call sites, %d of its own obligations are not claimed/discharged", u, undisByFn[u]))
				}
			}
		}
	}
	sort.Strings(assumedContracts)
	for f := range w.libFrames {
		assumedContracts = append(assumedContracts, "library frame assumed (writes only memory reachable from its arguments): "+f)
	}
	trusted = append(trusted, ps.Trusted...)
	sort.Strings(trusted[3:])
	var assumptions []string
	for a := range assum {
		assumptions = append(assumptions, a)
	}
	sort.Strings(assumptions)
	assumptions = append(assumptions, assumedContracts...)
	assumptions = append(assumptions,
		"machine integers: modelled as mathematical integers with exact Go wrap-around on every +,-,*,conversion (no overflow assumed away); non-constant shifts and &,|,^ with non-mask operands are uninterpreted (sound, incomplete)",
		"method receivers of pointer type are non-nil inside the method (callers get a nilrecv obligation at contracted call sites)",
		"termination is checked only where a `decreases` clause is given",
	)
	var samples []any
	for _, o := range rr.obls {
		if o.expect != "sat" && o.status == "unsat" && o.solver != "syntactic" && len(samples) < 4 {
			samples = append(samples, map[string]any{"obligation": o.name, "kind": o.kind, "contract_clause": o.src, "goal_smt": trunc(o.goal, 600), "path_guard": trunc(o.guard, 200), "solver": o.solver, "ms": o.ms})
		}
	}
	if len(samples) == 0 {
		for _, o := range rr.obls {
			if len(samples) < 2 {
				samples = append(samples, map[string]any{"obligation": o.name, "status": o.status})
			}
		}
	}
	sort.Strings(undecidedNotClaimed)
	var secondAttempt []string
	for _, o := range rr.obls {
		if o.retried {
			secondAttempt = append(secondAttempt, fmt.Sprintf("%s [%s by %s]", o.name, o.status, o.solver))
		}
	}
	sort.Strings(secondAttempt)
	if len(secondAttempt) > 0 {
		fmt.Printf("NOTE: %d obligation(s) needed the second attempt: %s\n", len(secondAttempt), strings.Join(secondAttempt, "; "))
	}
	cov := map[string]any{
		"decided_on_second_attempt":         secondAttempt,
		"obligations":                       claimed,
		"discharged":                        discharged,
		"checker_cmd":                       fmt.Sprintf("bin/govc check -p %s -tier %s", prop, tier),
		"trusted_base":                      trusted,
		"samples":                           samples,
		"functions_under_contract":          fnNames,
		"functions_out_of_subset":           oosNames,
		"unbound_contracts":                 rr.unbound,
		"contracts_assumed_not_verified":     assumedContracts,
		"ledger_obligations_not_generated":  missing,
		"generated_obligations_total":       len(rr.obls),
		"undecided_not_claimed":             undecidedNotClaimed,
		"discharged_by_solver":              bySolver,
		"solver_time_ms":                    solverMs,
		"load_ms":                           tLoad.Milliseconds(),
		"undecided_remainder_of_property":   ps.Undecided,
		"known_findings_reported":           len(knownSeen),
		"obligation_details":                evs,
		"vacuity_checks_failed":             vacuous,
		"explanation":                       "contract-based deductive verification: weakest-precondition VCs generated from go/ssa of the current /repo working tree for the functions under contract; each obligation is one SMT query",
	}
	ev := map[string]any{
		"property_id": prop,
		"tier":        tier,
		"seed":        seed,
		"level":       "proof",
		"coverage":    cov,
		"assumptions": assumptions,
		"wall_s":      time.Since(t0).Seconds(),
		"violations":  len(violations),
	}
	b, _ := json.MarshalIndent(ev, "", " ")
	evDir := filepath.Join(verifDir, "evidence")
	if devRun {
		// filtered / exploratory runs do not overwrite the record of the registered check
		evDir = filepath.Join(verifDir, "out", "evidence-dev")
	}
	os.MkdirAll(evDir, 0o755)
	if err := os.WriteFile(filepath.Join(evDir, prop+".json"), append(b, '\n'), 0o644); err != nil {
		fmt.Fprintln(os.Stderr, err)
		return 2
	}
	fmt.Printf("%s %s: %d/%d claimed obligations discharged (%d generated, %d functions, %d out of subset, %d unbound) in %.1fs\n",
		prop, tier, discharged, claimed, len(rr.obls), len(fnNames), len(oosNames), len(rr.unbound), time.Since(t0).Seconds())
	if verbose {
		for _, e := range evs {
			if e.Status != "unsat" {
				fmt.Printf("  %-8s %s  %s\n", e.Status, e.Name, e.Src)
			}
		}
		for _, o := range oosNames {
			fmt.Println("  OOS", o)
		}
	}
	if claimed == 0 && exit == 0 {
		fmt.Fprintln(os.Stderr, "BROKEN: no claimed obligations were generated")
		exit = 2
	}
	return exit
}

// lookupKnown matches an obligation against the known findings (exact name, or the
// finding names a prefix such as fn#post:1 that covers every return site).
func lookupKnown(known map[string]knownFinding, name string) (knownFinding, bool) {
	if k, ok := known[name]; ok {
		return k, true
	}
	for pre, k := range known {
		if strings.HasPrefix(name, pre) && (len(name) == len(pre) || name[len(pre)] == '~') {
			return k, true
		}
	}
	return knownFinding{}, false
}

func loadKnown(prop string) map[string]knownFinding {
	var kfs []knownFinding
	loadJSON(filepath.Join(verifDir, "known_findings.json"), &kfs)
	known := map[string]knownFinding{}
	for _, k := range kfs {
		if k.Property == prop && k.Status == "finding" {
			known[k.Obligation] = k
		}
	}
	return known
}

func dedup(xs []string) []string {
	seen := map[string]bool{}
	var out []string
	for _, x := range xs {
		if !seen[x] {
			seen[x] = true
			out = append(out, x)
		}
	}
	return out
}

func trunc(s string, n int) string {
	if len(s) > n {
		return s[:n] + "…"
	}
	return s
}

// replay writes a replay file for a failed obligation. Returns the path and whether a
// failing input was reproduced on the real code.
func replay(w *world, o *obligation, dir string) (string, bool) {
	path := filepath.Join(dir, sanitize(o.name)+".txt")
	var sb strings.Builder
	fmt.Fprintf(&sb, "obligation: %s\nfunction: %s\nkind: %s\nposition: %s\nclause: %s\nstatus: %s (solver %s, %d ms)\n", o.name, o.fn, o.kind, o.pos, o.src, o.status, o.solver, o.ms)
	fmt.Fprintf(&sb, "\ngoal (negated in the query):\n%s\n\npath guard:\n%s\n", o.goal, o.guard)
	if o.status == "sat" {
		fmt.Fprintf(&sb, "\nsolver model:\n%s\n", trunc(o.model, 20000))
	} else {
		fmt.Fprintf(&sb, "\nsolver output:\n%s\n", trunc(o.model, 4000))
	}
	found := false
	// sat: model-driven replay; otherwise a driver that needs no model values may still
	// reproduce the failure on the real code
	if rp, ok := tryReplay(w, o, dir, &sb); ok {
		found = true
		_ = rp
	}
	os.WriteFile(path, []byte(sb.String()), 0o644)
	return path, found
}
