package main

// Instantiation hints for assumed universally quantified clauses.
//
// A requires clause or loop invariant of the form  forall x int :: P(x)  (possibly
// under an implication) is assumed as a quantified fact, and additionally instantiated
// at every integer term the function uses to index a slice.  The instances are logical
// consequences of the assumed fact, so this only helps the solver (E-matching on index
// arithmetic is brittle); it adds no assumption.

import (
	"fmt"
	"go/types"
	"regexp"
	"strings"
)

type quantAssumed struct {
	guard string // guard under which the clause was assumed
	hole  string // placeholder constant standing for the bound variable
	body  string // instance template (range constraints included)
	sort  string // SMT sort of the bound variable
	// skOnly: instantiate only at goal skolem constants (callee postconditions), not at
	// every index term
	skOnly bool
}

// noteQuantAssumed records an assumed clause if it has the supported shape.
func (g *fgen) noteQuantAssumed(env *cenv, c clause, guard string) {
	g.noteQuant(env, c, guard, false)
}

// multiVarForall: the clause is (P ==>)* forall x, y, ... :: body.
func (g *fgen) multiVarForall(c clause) bool {
	e := c.e
	for {
		if b, ok := e.(*cBinary); ok && b.op == "==>" {
			e = b.y
			continue
		}
		break
	}
	q, ok := e.(*cQuant)
	return ok && q.forall && len(q.vars) > 1
}

func (g *fgen) noteQuant(env *cenv, c clause, guard string, skOnly bool) (ninst int) {
	defer func() {
		if r := recover(); r != nil {
			if _, ok := r.(transErr); !ok {
				panic(r)
			}
		}
	}()
	var pre []cexpr
	e := c.e
	for {
		if b, ok := e.(*cBinary); ok && b.op == "==>" {
			pre = append(pre, b.x)
			e = b.y
			continue
		}
		break
	}
	q, ok := e.(*cQuant)
	if !ok || !q.forall || len(q.vars) == 0 {
		return 0
	}
	vars := map[string]val{}
	var holes, sorts, binders []string
	var wfs []string
	for _, qv := range q.vars {
		t, err := g.resolveType(qv.typ, env.pkg)
		if err != nil {
			return 0
		}
		srt := g.sortOf(t)
		g.nfresh++
		hole := fmt.Sprintf("q!hole!%d", g.nfresh)
		vars[qv.name] = val{hole, t, srt}
		holes = append(holes, hole)
		sorts = append(sorts, srt)
		binders = append(binders, fmt.Sprintf("(%s %s)", hole, srt))
		if _, isB := t.Underlying().(*types.Basic); isB {
			if w := g.wf(hole, t, "", 0); w != "true" {
				wfs = append(wfs, w)
			}
		}
	}
	inner := env.with(vars)
	var parts []string
	for _, p := range pre {
		parts = append(parts, env.bool(p))
	}
	parts = append(parts, wfs...)
	var qside []string
	inner.qside = &qside
	inner.qbind = append(append([]string{}, env.qbind...), binders...)
	ib := inner.bool(q.body)
	// loads under the binder are well formed (memory-model invariant): part of every
	// instance
	body := implies(and(parts...), and(append(qside, ib)...))
	// witness terms named by the contract: all combinations of matching sort
	ninst = g.instantiateWitnesses(guard, holes, sorts, body)
	if len(holes) != 1 {
		return
	}
	qa := quantAssumed{guard: guard, hole: holes[0], body: body, sort: sorts[0], skOnly: skOnly}
	g.quantReqs = append(g.quantReqs, qa)
	if sorts[0] == "Int" && !skOnly {
		for _, t := range g.instTerms {
			g.fact(qa.guard, strings.ReplaceAll(qa.body, qa.hole, t))
		}
	}
	return ninst
}

// instantiateWitnesses emits the instances of an assumed universal clause at the
// witness terms of the function's contract (`witness e, ...`): logical consequences.
func (g *fgen) instantiateWitnesses(guard string, holes, sorts []string, body string) (n int) {
	if len(g.witTerms) == 0 {
		return 0
	}
	var rec func(i int, cur string)
	rec = func(i int, cur string) {
		if n >= 128 {
			return
		}
		if i == len(holes) {
			n++
			g.fact(guard, cur)
			return
		}
		for _, w := range g.witTerms {
			if w.sort == sorts[i] {
				rec(i+1, strings.ReplaceAll(cur, holes[i], w.t))
			}
		}
	}
	rec(0, body)
	return n
}

var reGoalForall = regexp.MustCompile(`^\(forall \(((?:\([A-Za-z0-9_!]+ [A-Za-z]+\) ?)+)\) `)
var reBinder = regexp.MustCompile(`\(([A-Za-z0-9_!]+) ([A-Za-z]+)\)`)

// skolemizeGoal: a goal of the form (forall ((x S)) body) is proved for a fresh
// constant, and every assumed single-variable universal clause over the same sort is
// instantiated at that constant (logical consequences, emitted as facts).
func (g *fgen) skolemizeGoal(goal string) string {
	if strings.HasPrefix(goal, "(=> ") && strings.HasSuffix(goal, ")") {
		// (=> A (forall ...)): skolemize the consequent
		end := sexpEnd(goal, 4)
		if end > 0 && end+1 < len(goal) {
			a := goal[4:end]
			rest := goal[end+1 : len(goal)-1]
			if strings.HasPrefix(rest, "(forall ((") || strings.HasPrefix(rest, "(=> ") {
				r2 := g.skolemizeGoal(rest)
				if r2 != rest {
					return "(=> " + a + " " + r2 + ")"
				}
			}
		}
		return goal
	}
	m := reGoalForall.FindStringSubmatch(goal)
	if m == nil || !strings.HasSuffix(goal, ")") {
		return goal
	}
	body := goal[len(m[0]) : len(goal)-1]
	if !balanced(body) {
		return goal
	}
	for _, b := range reBinder.FindAllStringSubmatch(m[1], -1) {
		v, srt := b[1], b[2]
		sk := g.fresh("sk", srt)
		body = replaceSym(body, v, sk)
		for _, qa := range g.quantReqs {
			if qa.sort == srt {
				g.fact(qa.guard, strings.ReplaceAll(qa.body, qa.hole, sk))
			}
		}
	}
	return body
}

// instantiateAt emits the instances of the recorded clauses at index term t.
func (g *fgen) instantiateAt(t string) {
	if g.instDone == nil {
		g.instDone = map[string]bool{}
	}
	if g.instDone[t] {
		return
	}
	g.instDone[t] = true
	g.instTerms = append(g.instTerms, t)
	for _, qa := range g.quantReqs {
		if qa.sort == "Int" && !qa.skOnly {
			g.fact(qa.guard, strings.ReplaceAll(qa.body, qa.hole, t))
		}
	}
}

// replaceSym replaces whole-symbol occurrences of v (so q!i!1 does not hit q!i!12).
func replaceSym(s, v, by string) string {
	var b strings.Builder
	for i := 0; i < len(s); {
		j := strings.Index(s[i:], v)
		if j < 0 {
			b.WriteString(s[i:])
			break
		}
		j += i
		end := j + len(v)
		if end < len(s) && (s[end] == '!' || s[end] == '_' || (s[end] >= '0' && s[end] <= '9') || (s[end] >= 'a' && s[end] <= 'z') || (s[end] >= 'A' && s[end] <= 'Z')) {
			b.WriteString(s[i:end])
			i = end
			continue
		}
		b.WriteString(s[i:j])
		b.WriteString(by)
		i = end
	}
	return b.String()
}

var reGoalSym = regexp.MustCompile(`[A-Za-z_][A-Za-z0-9_]*(?:![0-9]+)?`)

// goalTermInstances: the assumed single-variable universal clauses over Int (references
// and integers), instantiated at the Int constants the goal mentions.  Consequences of
// assumed facts, private to the obligation.
func (g *fgen) goalTermInstances(goal string) []string {
	if len(g.quantReqs) == 0 {
		return nil
	}
	seen := map[string]bool{}
	var syms []string
	for _, m := range reGoalSym.FindAllString(goal, -1) {
		if seen[m] {
			continue
		}
		seen[m] = true
		if g.constSort[m] == "Int" && !strings.HasPrefix(m, "alloc") {
			syms = append(syms, m)
		}
	}
	if len(syms) > 12 {
		syms = syms[:12]
	}
	var out []string
	for _, qa := range g.quantReqs {
		if qa.sort != "Int" || qa.skOnly {
			continue
		}
		for _, t := range syms {
			out = append(out, "(assert "+implies(qa.guard, strings.ReplaceAll(qa.body, qa.hole, t))+")")
		}
	}
	return out
}

// sexpEnd: index just past the s-expression (or atom) starting at s[i]; -1 if malformed.
func sexpEnd(s string, i int) int {
	if i >= len(s) {
		return -1
	}
	if s[i] != '(' {
		j := i
		for j < len(s) && s[j] != ' ' && s[j] != ')' {
			j++
		}
		return j
	}
	d := 0
	for j := i; j < len(s); j++ {
		switch s[j] {
		case '(':
			d++
		case ')':
			d--
			if d == 0 {
				return j + 1
			}
		case '"':
			j++
			for j < len(s) && s[j] != '"' {
				j++
			}
		}
	}
	return -1
}
