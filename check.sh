#!/bin/sh
# usage: check.sh <property-id> [quick|thorough]
export GOFLAGS=-mod=mod GOPROXY=off GOSUMDB=off GOTOOLCHAIN=local
cd /verif
[ -x bin/govc ] || ./setup.sh >/dev/null 2>&1
exec bin/govc check -p "$1" -tier "${2:-${VERIF_TIER:-quick}}"
