package main

// Lock discipline ("guarded-by"):
//
//	//@ guarded (c *Context) c.mu: byID, toType, toValue, typedefs
//
// Every load of a guarded field needs the object's mutex in the ghost set heldW or
// heldR; every store needs it in heldW.  The sets are maintained by the trusted
// contracts of sync.Mutex / sync.RWMutex.  This decides data-race freedom by lock
// discipline for the functions under contract, not atomicity of multi-step protocols.

import (
	"fmt"
	"go/token"
	"go/types"
)

type guardInfo struct {
	rootT    string // mangled struct type
	T        types.Type
	muIdx    int
	muType   types.Type
	fieldIdx map[int]string
}

func (g *fgen) setupGuards() {
	for _, gd := range g.w.cs.guards {
		pkg := g.w.allTPkg[gd.pkgPath]
		if pkg == nil {
			continue
		}
		ct, err := parseTypeString(gd.recvType)
		if err != nil {
			continue
		}
		t, err := g.resolveType(ct, pkg)
		if err != nil {
			continue
		}
		s, T, ok := derefStruct(t)
		if !ok {
			continue
		}
		gi := &guardInfo{rootT: typeName(T), T: T, muIdx: -1, fieldIdx: map[int]string{}}
		for i := 0; i < s.NumFields(); i++ {
			if s.Field(i).Name() == gd.mutex {
				gi.muIdx = i
				gi.muType = s.Field(i).Type()
			}
			for _, f := range gd.fields {
				if s.Field(i).Name() == f {
					gi.fieldIdx[i] = f
				}
			}
		}
		if gi.muIdx >= 0 {
			g.guardInfos = append(g.guardInfos, gi)
		}
	}
}

// guardCheck emits the lock-held obligation for an access through l.
func (g *fgen) guardCheck(st *state, l *loc, write bool, pos token.Pos) {
	if len(g.guardInfos) == 0 || l == nil || l.root != rootField || len(l.path) == 0 || l.fresh {
		return
	}
	for _, gi := range g.guardInfos {
		if gi.rootT != l.rootT {
			continue
		}
		name, ok := gi.fieldIdx[l.path[0]]
		if !ok {
			continue
		}
		if g.freshRefs[l.base] {
			return // object allocated in this function and not yet shared
		}
		mu := g.interiorPtr(&loc{root: rootField, rootT: gi.rootT, path: []int{gi.muIdx}, base: l.base, typ: gi.muType})
		kw, gw := g.ghostKey("heldW")
		kr, gr := g.ghostKey("heldR")
		if gw == nil || gr == nil {
			return
		}
		var goal string
		if write {
			goal = fmt.Sprintf("(select %s %s)", g.read(st, kw), mu)
		} else {
			goal = fmt.Sprintf("(or (select %s %s) (select %s %s))", g.read(st, kw), mu, g.read(st, kr), mu)
		}
		kind := "guard-read"
		if write {
			kind = "guard-write"
		}
		g.oblige(kind, name+"@"+g.siteLabel(pos, "access"), goal, pos)
		g.obls[len(g.obls)-1].src = "field " + name + " is guarded by the object's mutex"
	}
}
