package main

// Contract expression -> SMT translation.

import (
	"regexp"
	"fmt"
	"go/constant"
	"go/types"
	"math/big"
	"sort"
	"strconv"
	"strings"
)

type cenv struct {
	g     *fgen
	st    *state
	old   *state
	vars  map[string]val
	pkg   *types.Package
	local func(name string) (val, bool)
	nq    *int
	depth int
	side  *[]string // heap well-formedness facts about loaded terms
	qside *[]string // the same for terms under a quantifier (guards inside the binder)
	qbind []string  // binders "(name Sort)" of the enclosing quantifiers
	// loopVar: in a loop invariant, a parameter that the loop reassigns denotes its
	// current value (the header phi); old(p) is its entry value
	loopVar func(name string) (val, bool)
	inOld   bool
	// recSyms: recursive spec functions currently being defined -> their symbol
	recSyms map[string]string
}

// noteLoad records the well-formedness of a term loaded from the heap (refs are
// allocated, slices are well shaped): an invariant of the memory model.
func (e *cenv) noteLoad(v val) val {
	if e.typedLoad(v) {
		return v // covered by the heap typing axiom of that heap version
	}
	if strings.Contains(v.t, "q!") && e.qside != nil {
		// a load under a quantifier: its well-formedness (references held by the heap of
		// a state are allocated in that state) guards the quantifier body
		if f := e.g.wf(v.t, v.typ, e.st.alloc, 0); f != "true" {
			*e.qside = append(*e.qside, f)
		}
		return v
	}
	if e.side == nil || strings.Contains(v.t, "q!") || strings.Contains(v.t, "a!") {
		return v
	}
	switch v.typ.Underlying().(type) {
	case *types.Pointer, *types.Map, *types.Slice, *types.Interface, *types.Signature, *types.Chan:
		if f := e.g.wf(v.t, v.typ, e.st.alloc, 0); f != "true" {
			*e.side = append(*e.side, f)
		}
	}
	return v
}

var reTypedLoad = regexp.MustCompile(`^\(select (?:\(select )?(H[0-9A-Za-z_!]+) `)

// typedLoad: v is a direct read of a heap version that carries a typing axiom.
func (e *cenv) typedLoad(v val) bool {
	b, ok := v.typ.Underlying().(*types.Basic)
	if !ok || b.Info()&types.IsInteger == 0 {
		return false
	}
	m := reTypedLoad.FindStringSubmatch(v.t)
	if m == nil {
		return false
	}
	hm := reHeapName.FindStringSubmatch(m[1])
	if hm == nil {
		return false
	}
	_, typed := e.g.intKeys[hm[1]]
	return typed
}

type transErr string

func (t transErr) Error() string { return string(t) }

func (e *cenv) fail(format string, a ...any) {
	panic(transErr(fmt.Sprintf(format, a...)))
}

func (e *cenv) with(vars map[string]val) *cenv {
	n := *e
	n.vars = map[string]val{}
	for k, v := range e.vars {
		n.vars[k] = v
	}
	for k, v := range vars {
		n.vars[k] = v
	}
	return &n
}

var untypedNil = types.Typ[types.UntypedNil]
var tInt = types.Typ[types.Int]

// tMathInt is the type of unbounded integers in contract expressions: the result of
// contract arithmetic (which never wraps) and of the spec type mathint.  Converting it
// to a machine integer type wraps.
// tRef is the spec type of object references (unbounded, like the allocation watermark).
var tRef = types.NewNamed(types.NewTypeName(0, nil, "ref", nil), types.Typ[types.Int], nil)

var tMathInt = types.NewNamed(types.NewTypeName(0, nil, "mathint", nil), types.Typ[types.Int], nil)
var tBool = types.Typ[types.Bool]
var tString = types.Typ[types.String]
var tFloat64 = types.Typ[types.Float64]

func (g *fgen) findPkgByName(from *types.Package, name string) *types.Package {
	if strings.Contains(name, "/") {
		// a path suffix disambiguates packages that share a name (vam/op vs sam/op)
		for _, p := range g.w.allTPkg {
			if strings.HasSuffix(p.Path(), "/"+name) {
				return p
			}
		}
		return nil
	}
	if from != nil {
		for _, p := range from.Imports() {
			if p.Name() == name {
				return p
			}
		}
		if from.Name() == name {
			return from
		}
	}
	var found *types.Package
	for _, p := range g.w.allTPkg {
		if p.Name() == name {
			if found == nil || len(p.Path()) < len(found.Path()) {
				found = p
			}
		}
	}
	return found
}

func (g *fgen) resolveType(ct *ctype, pkg *types.Package) (types.Type, error) {
	switch ct.kind {
	case "func":
		return types.NewSignatureType(nil, nil, nil, nil, nil, false), nil
	case "ptr":
		t, err := g.resolveType(ct.elem, pkg)
		if err != nil {
			return nil, err
		}
		return types.NewPointer(t), nil
	case "slice":
		t, err := g.resolveType(ct.elem, pkg)
		if err != nil {
			return nil, err
		}
		return types.NewSlice(t), nil
	case "array":
		t, err := g.resolveType(ct.elem, pkg)
		if err != nil {
			return nil, err
		}
		n, _ := strconv.Atoi(ct.n)
		return types.NewArray(t, int64(n)), nil
	case "map":
		k, err := g.resolveType(ct.key, pkg)
		if err != nil {
			return nil, err
		}
		v, err := g.resolveType(ct.elem, pkg)
		if err != nil {
			return nil, err
		}
		return types.NewMap(k, v), nil
	case "set":
		t, err := g.resolveType(ct.elem, pkg)
		if err != nil {
			return nil, err
		}
		return &setType{t}, nil
	case "seq":
		t, err := g.resolveType(ct.elem, pkg)
		if err != nil {
			return nil, err
		}
		return &seqType{t}, nil
	case "name":
		name := ct.name
		if name == "ref" {
			return tRef, nil
		}
		if name == "mathint" {
			return tMathInt, nil
		}
		if name == "real" {
			return realType{}, nil
		}
		if name == "struct{}" {
			return types.NewStruct(nil, nil), nil
		}
		if i := strings.LastIndex(name, "."); i >= 0 {
			p := g.findPkgByName(pkg, name[:i])
			if p == nil {
				return nil, fmt.Errorf("unknown package %s", name[:i])
			}
			o := p.Scope().Lookup(name[i+1:])
			if tn, ok := o.(*types.TypeName); ok {
				return tn.Type(), nil
			}
			return nil, fmt.Errorf("unknown type %s", name)
		}
		if o := types.Universe.Lookup(name); o != nil {
			if tn, ok := o.(*types.TypeName); ok {
				return tn.Type(), nil
			}
		}
		if pkg != nil {
			if tn, ok := pkg.Scope().Lookup(name).(*types.TypeName); ok {
				return tn.Type(), nil
			}
		}
		return nil, fmt.Errorf("unknown type %s", name)
	}
	return nil, fmt.Errorf("bad type")
}

func (g *fgen) ghostKey(name string) (string, *ghostVar) {
	gv := g.w.cs.ghosts[name]
	if gv == nil {
		return "", nil
	}
	k := "G_ghost_" + name
	if _, ok := g.heapSort[k]; !ok {
		t, err := g.resolveType(gv.typ, g.w.allTPkg[gv.pkgPath])
		if err != nil {
			panic(transErr(fmt.Sprintf("ghost %s: %v", name, err)))
		}
		g.heapSort[k] = g.sortOf(t)
	}
	return k, gv
}

func (g *fgen) globalKey(v *types.Var) string {
	k := "G_" + mangle(v.Pkg().Path()+"."+v.Name())
	if _, ok := g.heapSort[k]; !ok {
		g.heapSort[k] = g.sortOf(v.Type())
		g.noteKeyType(k, rootGlobal, v.Type())
	}
	return k
}

func (e *cenv) constObj(c *types.Const) val {
	g := e.g
	t := c.Type()
	cv := c.Val()
	switch cv.Kind() {
	case constant.Bool:
		if constant.BoolVal(cv) {
			return val{"true", tBool, "Bool"}
		}
		return val{"false", tBool, "Bool"}
	case constant.String:
		return val{smtString(constant.StringVal(cv)), t, "String"}
	case constant.Int:
		bi, _ := constInt(cv)
		if b, ok := t.Underlying().(*types.Basic); ok && b.Info()&types.IsFloat != 0 {
			f, _ := constant.Float64Val(cv)
			return val{smtFloat64(f), t, g.sortOf(t)}
		}
		return val{smtInt(bi), t, "Int"}
	case constant.Float:
		f, _ := constant.Float64Val(cv)
		if b, ok := t.Underlying().(*types.Basic); ok && b.Info()&types.IsInteger != 0 {
			bi, _ := constInt(cv)
			return val{smtInt(bi), t, "Int"}
		}
		return val{smtFloat64(f), tFloat64, g.sortOf(tFloat64)}
	}
	e.fail("unsupported constant %s", c.Name())
	return val{}
}

func (e *cenv) lookupObj(pkg *types.Package, name string) (val, bool) {
	if pkg == nil {
		return val{}, false
	}
	o := pkg.Scope().Lookup(name)
	switch x := o.(type) {
	case *types.Const:
		return e.constObj(x), true
	case *types.Var:
		if _, isS := isStructVal(x.Type()); isS {
			// struct-typed package variable: one heap cell per leaf field, as in the code
			l := &loc{root: rootGlobal, rootT: mangle(x.Pkg().Path() + "." + x.Name()), typ: x.Type()}
			return val{e.g.load(e.st, l), x.Type(), e.g.sortOf(x.Type())}, true
		}
		k := e.g.globalKey(x)
		return val{e.g.read(e.st, k), x.Type(), e.g.sortOf(x.Type())}, true
	}
	return val{}, false
}

func (e *cenv) tr(x cexpr) val {
	g := e.g
	switch x := x.(type) {
	case *cIntLit:
		bi, ok := new(big.Int).SetString(x.val, 0)
		if !ok {
			e.fail("bad int %s", x.val)
		}
		return val{smtInt(bi), types.Typ[types.UntypedInt], "Int"}
	case *cFltLit:
		f, err := strconv.ParseFloat(x.val, 64)
		if err != nil {
			e.fail("bad float %s", x.val)
		}
		return val{smtFloat64(f), tFloat64, g.sortOf(tFloat64)}
	case *cStrLit:
		return val{smtString(x.val), tString, "String"}
	case *cIdent:
		return e.ident(x.name)
	case *cSel:
		return e.sel(x)
	case *cIndex:
		return e.index(x)
	case *cSlice:
		return e.slice(x)
	case *cCall:
		return e.call(x)
	case *cUnary:
		return e.unary(x)
	case *cBinary:
		return e.binary(x)
	case *cCond:
		c := e.bool(x.c)
		a := e.tr(x.a)
		b := e.tr(x.b)
		a, b = e.unify(a, b)
		return val{fmt.Sprintf("(ite %s %s %s)", c, a.t, b.t), a.typ, a.sort}
	case *cQuant:
		return e.quant(x)
	case *cTypeX:
		// `*x.f` in argument position parses as a pointer type; when x is a variable it
		// is the dereference of the selector expression
		if x.t.kind == "ptr" && x.t.elem != nil && x.t.elem.kind == "name" {
			parts := strings.Split(x.t.elem.name, ".")
			if _, isVar := e.vars[parts[0]]; isVar || (e.local != nil && func() bool { _, ok := e.local(parts[0]); return ok }()) {
				var ex cexpr = &cIdent{parts[0]}
				for _, p := range parts[1:] {
					ex = &cSel{ex, p}
				}
				return e.tr(&cUnary{"*", ex})
			}
		}
		e.fail("type %s used as value", x.t)
	}
	e.fail("unsupported expression %s", x)
	return val{}
}

func (e *cenv) bool(x cexpr) string {
	v := e.tr(x)
	if v.sort != "Bool" {
		e.fail("expected Bool: %s (got %s)", x, v.sort)
	}
	return v.t
}

func (e *cenv) ident(name string) val {
	g := e.g
	if e.loopVar != nil && !e.inOld {
		if v, ok := e.loopVar(name); ok {
			return v
		}
	}
	if v, ok := e.vars[name]; ok {
		return v
	}
	switch name {
	case "nil":
		return val{"nil", untypedNil, "nil"}
	case "true":
		return val{"true", tBool, "Bool"}
	case "false":
		return val{"false", tBool, "Bool"}
	}
	if e.local != nil {
		if v, ok := e.local(name); ok {
			return v
		}
	}
	if k, gv := g.ghostKey(name); gv != nil {
		t, _ := g.resolveType(gv.typ, g.w.allTPkg[gv.pkgPath])
		return val{g.read(e.st, k), t, g.sortOf(t)}
	}
	if v, ok := e.lookupObj(e.pkg, name); ok {
		return v
	}
	if sf := g.w.cs.specs[name]; sf != nil && len(sf.params) == 0 {
		return e.specCall(sf, nil)
	}
	e.fail("unknown identifier %s", name)
	return val{}
}

func derefStruct(t types.Type) (*types.Struct, types.Type, bool) {
	if p, ok := t.Underlying().(*types.Pointer); ok {
		if s, ok := p.Elem().Underlying().(*types.Struct); ok {
			return s, p.Elem(), true
		}
	}
	return nil, nil, false
}

func (e *cenv) fieldOf(cur val, idx int) val {
	g := e.g
	if s, T, ok := derefStruct(cur.typ); ok {
		ft := s.Field(idx).Type()
		l := &loc{root: rootField, rootT: typeName(T), path: []int{idx}, base: cur.t, typ: ft}
		return e.noteLoad(val{g.load(e.st, l), ft, g.sortOf(ft)})
	}
	if s, ok := cur.typ.Underlying().(*types.Struct); ok {
		srt := g.structSort(cur.typ, s)
		ft := s.Field(idx).Type()
		return val{fmt.Sprintf("(%s_f%d %s)", srt, idx, cur.t), ft, g.sortOf(ft)}
	}
	e.fail("field access on non-struct %s", cur.typ)
	return val{}
}

func (e *cenv) sel(x *cSel) val {
	g := e.g
	if id, ok := x.x.(*cIdent); ok {
		if _, isVar := e.vars[id.name]; !isVar {
			isLocal := false
			if e.local != nil {
				_, isLocal = e.local(id.name)
			}
			if !isLocal && g.w.cs.ghosts[id.name] == nil {
				if p := g.findPkgByName(e.pkg, id.name); p != nil {
					if v, ok := e.lookupObj(p, x.name); ok {
						return v
					}
					if sf := g.w.cs.specs[x.name]; sf != nil && len(sf.params) == 0 {
						return e.specCall(sf, nil)
					}
					e.fail("unknown %s.%s", id.name, x.name)
				}
			}
		}
	}
	cur := e.tr(x.x)
	obj, path, _ := types.LookupFieldOrMethod(cur.typ, true, e.pkg, x.name)
	if obj == nil {
		// try with the field's own package (unexported fields of other packages)
		var pk *types.Package
		if n, ok := derefNamed(cur.typ); ok && n.Obj().Pkg() != nil {
			pk = n.Obj().Pkg()
		}
		obj, path, _ = types.LookupFieldOrMethod(cur.typ, true, pk, x.name)
	}
	if _, ok := obj.(*types.Var); !ok {
		e.fail("no field %s in %s", x.name, cur.typ)
	}
	for _, i := range path {
		cur = e.fieldOf(cur, i)
	}
	return cur
}

func derefNamed(t types.Type) (*types.Named, bool) {
	if p, ok := t.Underlying().(*types.Pointer); ok {
		t = p.Elem()
	}
	n, ok := t.(*types.Named)
	return n, ok
}

func (g *fgen) elemLoc(s val, idx string) *loc {
	et := s.typ.Underlying().(*types.Slice).Elem()
	return &loc{root: rootElem, rootT: g.elemKeyName(et), base: fmt.Sprintf("(s_arr %s)", s.t), idx: fmt.Sprintf("(+ (s_off %s) %s)", s.t, idx), typ: et}
}

func (g *fgen) elemKeyName(et types.Type) string {
	if _, ok := isStructVal(et); ok {
		return typeName(et)
	}
	// slices of different basic element types can never alias: one heap per kind
	if b, ok := et.Underlying().(*types.Basic); ok {
		switch b.Kind() {
		case types.Uint8, types.Int8, types.Uint16, types.Int16, types.Uint32, types.Int32, types.Uint64, types.Int64,
			types.Int, types.Uint, types.Uintptr, types.Float32, types.Float64, types.Bool, types.String:
			return "b_" + types.Typ[b.Kind()].Name()
		}
	}
	return mangle(g.sortOf(et))
}

func (g *fgen) mapKeys(mt *types.Map) (has, vals, lens string) {
	ks, vs := g.sortOf(mt.Key()), g.sortOf(mt.Elem())
	tag := mangle(ks) + "__" + mangle(vs)
	has, vals, lens = "MH_"+tag, "MV_"+tag, "ML_"+tag
	g.heapSort[has] = "(Array Int (Array " + ks + " Bool))"
	g.heapSort[vals] = "(Array Int (Array " + ks + " " + vs + "))"
	g.heapSort[lens] = "(Array Int Int)"
	return
}

func (e *cenv) index(x *cIndex) val {
	g := e.g
	b := e.tr(x.x)
	i := e.tr(x.idx)
	switch u := b.typ.Underlying().(type) {
	case *types.Slice:
		l := g.elemLoc(b, i.t)
		return e.noteLoad(val{g.load(e.st, l), u.Elem(), g.sortOf(u.Elem())})
	case *types.Map:
		_, vk, _ := g.mapKeys(u)
		return e.noteLoad(val{fmt.Sprintf("(select (select %s %s) %s)", g.read(e.st, vk), b.t, i.t), u.Elem(), g.sortOf(u.Elem())})
	case *types.Array:
		return val{g.arrGet(u, b.t, i.t), u.Elem(), g.sortOf(u.Elem())}
	case *types.Basic:
		if u.Info()&types.IsString != 0 {
			return val{fmt.Sprintf("(str.to_code (str.at %s %s))", b.t, i.t), types.Typ[types.Uint8], "Int"}
		}
	case *setType:
		return val{fmt.Sprintf("(select %s %s)", b.t, i.t), tBool, "Bool"}
	case *seqType:
		return val{fmt.Sprintf("(select %s %s)", b.t, i.t), u.elem, g.sortOf(u.elem)}
	case *types.Pointer:
		if a, ok := u.Elem().Underlying().(*types.Array); ok {
			l := &loc{root: rootElem, rootT: g.elemKeyName(a.Elem()), base: b.t, idx: i.t, typ: a.Elem()}
			return val{g.load(e.st, l), a.Elem(), g.sortOf(a.Elem())}
		}
	}
	e.fail("cannot index %s", b.typ)
	return val{}
}

func (e *cenv) slice(x *cSlice) val {
	b := e.tr(x.x)
	lo := "0"
	if x.lo != nil {
		lo = e.tr(x.lo).t
	}
	switch u := b.typ.Underlying().(type) {
	case *types.Slice:
		hi := fmt.Sprintf("(s_len %s)", b.t)
		if x.hi != nil {
			hi = e.tr(x.hi).t
		}
		return val{fmt.Sprintf("(mk_slice (s_arr %s) (+ (s_off %s) %s) (- %s %s) (- (s_cap %s) %s))", b.t, b.t, lo, hi, lo, b.t, lo), b.typ, "Slice"}
	case *types.Basic:
		if u.Info()&types.IsString != 0 {
			hi := fmt.Sprintf("(str.len %s)", b.t)
			if x.hi != nil {
				hi = e.tr(x.hi).t
			}
			return val{fmt.Sprintf("(str.substr %s %s (- %s %s))", b.t, lo, hi, lo), b.typ, "String"}
		}
	}
	e.fail("cannot slice %s", b.typ)
	return val{}
}

func (e *cenv) unary(x *cUnary) val {
	g := e.g
	switch x.op {
	case "!":
		return val{not(e.bool(x.x)), tBool, "Bool"}
	case "-":
		v := e.tr(x.x)
		if strings.Contains(v.sort, "FloatingPoint") {
			return val{fmt.Sprintf("(fp.neg %s)", v.t), v.typ, v.sort}
		}
		return val{fmt.Sprintf("(- %s)", v.t), v.typ, v.sort}
	case "*":
		v := e.tr(x.x)
		p, ok := v.typ.Underlying().(*types.Pointer)
		if !ok {
			e.fail("deref of non-pointer")
		}
		l := g.ptrLoc(v.t, p.Elem())
		return val{g.load(e.st, l), p.Elem(), g.sortOf(p.Elem())}
	}
	if x.op == "&" {
		// &obj.f: the interior pointer, as the same term the code uses
		sel, ok := x.x.(*cSel)
		if !ok {
			e.fail("& is supported on field selectors only")
		}
		cur := e.tr(sel.x)
		var pk *types.Package
		if n, isN := derefNamed(cur.typ); isN && n.Obj().Pkg() != nil {
			pk = n.Obj().Pkg()
		}
		obj, path, _ := types.LookupFieldOrMethod(cur.typ, true, pk, sel.name)
		if _, isVar := obj.(*types.Var); !isVar || len(path) == 0 {
			e.fail("no field %s", sel.name)
		}
		for _, i := range path[:len(path)-1] {
			cur = e.fieldOf(cur, i)
		}
		s, T, isPS := derefStruct(cur.typ)
		if !isPS {
			e.fail("& of a field of a non-pointer")
		}
		last := path[len(path)-1]
		ft := s.Field(last).Type()
		l := &loc{root: rootField, rootT: typeName(T), path: []int{last}, base: cur.t, typ: ft}
		return val{g.interiorPtr(l), types.NewPointer(ft), "Int"}
	}
	e.fail("unsupported unary %s", x.op)
	return val{}
}

// boxKeyName: the heap of pointer cells holding values of type t.  One heap per SMT sort,
// except slices, which get one heap per element type: Go's types keep a *[]string and a
// *[]byte from aliasing (unsafe conversions of cell pointers are outside the model).
func (g *fgen) boxKeyName(t types.Type) string {
	if sl, ok := t.Underlying().(*types.Slice); ok {
		return "Slice_" + g.elemKeyName(sl.Elem())
	}
	return mangle(g.sortOf(t))
}

// ptrLoc: location a pointer value points to.
func (g *fgen) ptrLoc(ref string, elem types.Type) *loc {
	if _, ok := isStructVal(elem); ok {
		return &loc{root: rootField, rootT: typeName(elem), base: ref, typ: elem}
	}
	if a, ok := elem.Underlying().(*types.Array); ok {
		// whole array behind a pointer: the array object lives in the element heap
		return &loc{root: rootElem, rootT: g.elemKeyName(a.Elem()), base: ref, idx: "", typ: elem}
	}
	return &loc{root: rootBox, rootT: g.boxKeyName(elem), base: ref, typ: elem}
}

func isFloatSort(s string) bool { return strings.Contains(s, "FloatingPoint") }

func (e *cenv) unify(a, b val) (val, val) {
	g := e.g
	if a.sort == "nil" && b.sort != "nil" {
		a = val{g.zero(b.typ), b.typ, b.sort}
	} else if b.sort == "nil" && a.sort != "nil" {
		b = val{g.zero(a.typ), a.typ, a.sort}
	}
	if isFloatSort(a.sort) && b.sort == "Int" {
		b = val{fmt.Sprintf("((_ to_fp 11 53) RNE (to_real %s))", b.t), a.typ, a.sort}
	} else if isFloatSort(b.sort) && a.sort == "Int" {
		a = val{fmt.Sprintf("((_ to_fp 11 53) RNE (to_real %s))", a.t), b.typ, b.sort}
	}
	if a.sort == "Real" && b.sort == "Int" {
		b = val{fmt.Sprintf("(to_real %s)", b.t), realType{}, "Real"}
	} else if b.sort == "Real" && a.sort == "Int" {
		a = val{fmt.Sprintf("(to_real %s)", a.t), realType{}, "Real"}
	}
	if a.typ == types.Typ[types.UntypedInt] {
		a.typ = b.typ
	} else if b.typ == types.Typ[types.UntypedInt] {
		b.typ = a.typ
	}
	return a, b
}

func (e *cenv) eq(a, b val) string {
	a, b = e.unify(a, b)
	if a.sort == "nil" {
		return "true"
	}
	// nil comparisons on slices / interfaces compare only the discriminating component
	if _, ok := a.typ.Underlying().(*types.Slice); ok {
		if b.t == "(mk_slice 0 0 0 0)" {
			return fmt.Sprintf("(= (s_arr %s) 0)", a.t)
		}
		if a.t == "(mk_slice 0 0 0 0)" {
			return fmt.Sprintf("(= (s_arr %s) 0)", b.t)
		}
	}
	if _, ok := a.typ.Underlying().(*types.Interface); ok {
		if b.t == "(mk_iface 0 0)" {
			return fmt.Sprintf("(= (i_dt %s) 0)", a.t)
		}
		if a.t == "(mk_iface 0 0)" {
			return fmt.Sprintf("(= (i_dt %s) 0)", b.t)
		}
	}
	if a.sort == "Iface" && b.sort != "Iface" && b.sort != "nil" {
		// interface compared with a concrete value: the value is boxed (Go semantics)
		b = val{e.g.makeIface(e.st, "true", b), a.typ, "Iface"}
	} else if b.sort == "Iface" && a.sort != "Iface" && a.sort != "nil" {
		a = val{e.g.makeIface(e.st, "true", a), b.typ, "Iface"}
	}
	if a.sort != b.sort {
		e.fail("comparing %s with %s", a.sort, b.sort)
	}
	if isFloatSort(a.sort) {
		return fmt.Sprintf("(fp.eq %s %s)", a.t, b.t)
	}
	return fmt.Sprintf("(= %s %s)", a.t, b.t)
}

func (e *cenv) binary(x *cBinary) val {
	switch x.op {
	case "&&":
		return val{and(e.bool(x.x), e.bool(x.y)), tBool, "Bool"}
	case "||":
		return val{or(e.bool(x.x), e.bool(x.y)), tBool, "Bool"}
	case "==>":
		return val{implies(e.bool(x.x), e.bool(x.y)), tBool, "Bool"}
	case "<==>":
		return val{fmt.Sprintf("(= %s %s)", e.bool(x.x), e.bool(x.y)), tBool, "Bool"}
	}
	a := e.tr(x.x)
	b := e.tr(x.y)
	switch x.op {
	case "==":
		return val{e.eq(a, b), tBool, "Bool"}
	case "!=":
		return val{not(e.eq(a, b)), tBool, "Bool"}
	case "in":
		if _, ok := b.typ.(*setType); !ok {
			e.fail("`in` needs a set")
		}
		return val{fmt.Sprintf("(select %s %s)", b.t, a.t), tBool, "Bool"}
	}
	a, b = e.unify(a, b)
	if isFloatSort(a.sort) {
		switch x.op {
		case "<":
			return val{fmt.Sprintf("(fp.lt %s %s)", a.t, b.t), tBool, "Bool"}
		case "<=":
			return val{fmt.Sprintf("(fp.leq %s %s)", a.t, b.t), tBool, "Bool"}
		case ">":
			return val{fmt.Sprintf("(fp.gt %s %s)", a.t, b.t), tBool, "Bool"}
		case ">=":
			return val{fmt.Sprintf("(fp.geq %s %s)", a.t, b.t), tBool, "Bool"}
		case "+":
			return val{fmt.Sprintf("(fp.add RNE %s %s)", a.t, b.t), a.typ, a.sort}
		case "-":
			return val{fmt.Sprintf("(fp.sub RNE %s %s)", a.t, b.t), a.typ, a.sort}
		case "*":
			return val{fmt.Sprintf("(fp.mul RNE %s %s)", a.t, b.t), a.typ, a.sort}
		case "/":
			return val{fmt.Sprintf("(fp.div RNE %s %s)", a.t, b.t), a.typ, a.sort}
		}
		e.fail("unsupported float op %s", x.op)
	}
	if a.sort == "Real" || b.sort == "Real" {
		if a.sort == "Int" {
			a = val{fmt.Sprintf("(to_real %s)", a.t), realType{}, "Real"}
		}
		if b.sort == "Int" {
			b = val{fmt.Sprintf("(to_real %s)", b.t), realType{}, "Real"}
		}
		if a.sort != "Real" || b.sort != "Real" {
			e.fail("operator %s on %s/%s", x.op, a.sort, b.sort)
		}
		switch x.op {
		case "<", "<=", ">", ">=":
			return val{fmt.Sprintf("(%s %s %s)", x.op, a.t, b.t), tBool, "Bool"}
		case "+", "-", "*":
			return val{fmt.Sprintf("(%s %s %s)", x.op, a.t, b.t), realType{}, "Real"}
		}
		e.fail("unsupported real op %s", x.op)
	}
	if a.sort == "String" {
		switch x.op {
		case "+":
			return val{fmt.Sprintf("(str.++ %s %s)", a.t, b.t), a.typ, "String"}
		case "<":
			return val{fmt.Sprintf("(str.< %s %s)", a.t, b.t), tBool, "Bool"}
		case "<=":
			return val{fmt.Sprintf("(str.<= %s %s)", a.t, b.t), tBool, "Bool"}
		case ">":
			return val{fmt.Sprintf("(str.< %s %s)", b.t, a.t), tBool, "Bool"}
		case ">=":
			return val{fmt.Sprintf("(str.<= %s %s)", b.t, a.t), tBool, "Bool"}
		}
		e.fail("unsupported string op %s", x.op)
	}
	if a.sort != "Int" || b.sort != "Int" {
		// set operations
		if _, ok := a.typ.(*setType); ok {
			switch x.op {
			case "+", "|":
				return val{fmt.Sprintf("((_ map or) %s %s)", a.t, b.t), a.typ, a.sort}
			case "&":
				return val{fmt.Sprintf("((_ map and) %s %s)", a.t, b.t), a.typ, a.sort}
			case "-":
				return val{fmt.Sprintf("((_ map and) %s ((_ map not) %s))", a.t, b.t), a.typ, a.sort}
			}
		}
		e.fail("operator %s on %s/%s", x.op, a.sort, b.sort)
	}
	switch x.op {
	case "<", "<=", ">", ">=":
		return val{fmt.Sprintf("(%s %s %s)", x.op, a.t, b.t), tBool, "Bool"}
	case "+", "-", "*":
		return val{fmt.Sprintf("(%s %s %s)", x.op, a.t, b.t), tMathInt, "Int"}
	case "/":
		return val{fmt.Sprintf("(tdiv %s %s)", a.t, b.t), a.typ, "Int"}
	case "%":
		return val{fmt.Sprintf("(trem %s %s)", a.t, b.t), a.typ, "Int"}
	case "&", "|", "^", "<<", ">>", "&^":
		ii, ok := intInfoOf(a.typ)
		if !ok {
			ii = intInfo{true, 64}
		}
		return val{e.g.bitop(x.op, a.t, b.t, ii, true), a.typ, "Int"}
	}
	e.fail("unsupported operator %s", x.op)
	return val{}
}

func (e *cenv) quant(x *cQuant) val {
	g := e.g
	vars := map[string]val{}
	var binders []string
	var ranges []string
	for _, v := range x.vars {
		t, err := g.resolveType(v.typ, e.pkg)
		if err != nil {
			e.fail("%v", err)
		}
		*e.nq++
		n := fmt.Sprintf("q!%s!%d", v.name, *e.nq)
		srt := g.sortOf(t)
		binders = append(binders, fmt.Sprintf("(%s %s)", n, srt))
		vars[v.name] = val{n, t, srt}
		if v.typ.kind == "name" && (v.typ.name == "mathint" || v.typ.name == "ref") {
			continue
		}
		if r := g.wf(n, t, "", 0); r != "true" {
			ranges = append(ranges, r)
		}
	}
	inner := e.with(vars)
	var qside []string
	inner.qside = &qside
	inner.qbind = append(append([]string{}, e.qbind...), binders...)
	body := inner.bool(x.body)
	if len(qside) > 0 {
		// Loads under the binder are well formed (memory-model invariant).  The body is
		// guarded by that (sound in goal position) and the invariant itself is stated
		// as a quantified side fact (so the guard costs nothing in assumed position).
		seen := map[string]bool{}
		var fs []string
		for _, f := range qside {
			if !seen[f] {
				seen[f] = true
				fs = append(fs, f)
				if e.side != nil && !strings.Contains(f, "a!") {
					var bs []string
					for _, b := range inner.qbind {
						if strings.Contains(f, strings.Fields(b[1:])[0]) {
							bs = append(bs, b)
						}
					}
					if len(bs) > 0 {
						// canonical binder names: identical side facts from different
						// clause instances collapse
						ff := f
						var cb []string
						for i, b := range bs {
							fl := strings.Fields(b[1 : len(b)-1])
							nn := fmt.Sprintf("w!%d", i)
							ff = replaceSym(ff, fl[0], nn)
							cb = append(cb, fmt.Sprintf("(%s %s)", nn, strings.Join(fl[1:], " ")))
						}
						*e.side = append(*e.side, fmt.Sprintf("(forall (%s) %s)", strings.Join(cb, " "), ff))
					}
				}
			}
		}
		ranges = append(ranges, fs...)
	}
	rg := and(ranges...)
	if x.forall {
		return val{fmt.Sprintf("(forall (%s) %s)", strings.Join(binders, " "), implies(rg, body)), tBool, "Bool"}
	}
	return val{fmt.Sprintf("(exists (%s) %s)", strings.Join(binders, " "), and(rg, body)), tBool, "Bool"}
}

func (e *cenv) convert(v val, t types.Type) val {
	g := e.g
	srt := g.sortOf(t)
	if v.sort == "nil" {
		return val{g.zero(t), t, srt}
	}
	if ii, ok := intInfoOf(t); ok {
		if v.sort == "Int" {
			if v.typ == types.Typ[types.UntypedInt] {
				return val{v.t, t, "Int"}
			}
			if v.typ == tMathInt {
				if t == tMathInt {
					return v
				}
				return val{wrapTerm(ii, v.t), t, "Int"}
			}
			if t == tMathInt {
				return val{v.t, t, "Int"}
			}
			if si, ok := intInfoOf(v.typ); ok && si.bits <= ii.bits && (si.signed == ii.signed || (!si.signed && si.bits < ii.bits)) {
				return val{v.t, t, "Int"}
			}
			return val{wrapTerm(ii, v.t), t, "Int"}
		}
	}
	if isFloatSort(srt) && v.sort == "Int" {
		if ii, ok := intInfoOf(v.typ); ok && v.typ != types.Typ[types.UntypedInt] {
			r := val{intToFloatTerm(ii, v.t, 11, 53), t, srt}
			g.intFloatFacts(r.t)
			return r
		}
		return val{fmt.Sprintf("((_ to_fp 11 53) RNE (to_real %s))", v.t), t, srt}
	}
	if v.sort == srt {
		return val{v.t, t, srt}
	}
	if srt == "String" && v.sort == "Slice" {
		return val{g.bytesToString(e.st, v), t, srt}
	}
	if _, ok := t.Underlying().(*types.Interface); ok {
		return val{g.makeIface(e.st, "true", v), t, srt}
	}
	e.fail("unsupported conversion %s -> %s", v.typ, t)
	return val{}
}

func (e *cenv) typeArg(x cexpr) (types.Type, bool) {
	switch x := x.(type) {
	case *cUnary:
		// `*name` with a lower-case type name parses as a dereference
		if x.op == "*" {
			if t, ok := e.typeArg(x.x); ok {
				return types.NewPointer(t), true
			}
		}
		return nil, false
	case *cTypeX:
		t, err := e.g.resolveType(x.t, e.pkg)
		if err != nil {
			e.fail("%v", err)
		}
		return t, true
	case *cIdent:
		if _, isVar := e.vars[x.name]; isVar {
			return nil, false
		}
		t, err := e.g.resolveType(&ctype{kind: "name", name: x.name}, e.pkg)
		if err == nil {
			return t, true
		}
	case *cSel:
		if id, ok := x.x.(*cIdent); ok {
			t, err := e.g.resolveType(&ctype{kind: "name", name: id.name + "." + x.name}, e.pkg)
			if err == nil {
				return t, true
			}
		}
	}
	return nil, false
}

func (e *cenv) call(x *cCall) val {
	g := e.g
	name := ""
	switch f := x.fun.(type) {
	case *cIdent:
		name = f.name
	case *cSel:
		if id, ok := f.x.(*cIdent); ok {
			if g.findPkgByName(e.pkg, id.name) != nil {
				if _, isVar := e.vars[id.name]; !isVar {
					name = f.name
					if t, ok := e.typeArg(x.fun); ok && len(x.args) == 1 {
						return e.convert(e.tr(x.args[0]), t)
					}
				}
			}
		}
	case *cTypeX:
		t, _ := e.typeArg(f)
		return e.convert(e.tr(x.args[0]), t)
	}
	if name == "" {
		e.fail("unsupported call %s", x)
	}
	switch name {
	case "old":
		if e.old == nil {
			e.fail("old() not available here")
		}
		n := *e
		n.st = e.old
		n.inOld = true
		return n.tr(x.args[0])
	case "len":
		v := e.tr(x.args[0])
		switch u := v.typ.Underlying().(type) {
		case *types.Slice:
			return val{fmt.Sprintf("(s_len %s)", v.t), tInt, "Int"}
		case *types.Basic:
			return val{fmt.Sprintf("(str.len %s)", v.t), tInt, "Int"}
		case *types.Map:
			_, _, lk := g.mapKeys(u)
			return val{fmt.Sprintf("(select %s %s)", g.read(e.st, lk), v.t), tInt, "Int"}
		case *types.Array:
			return val{fmt.Sprint(u.Len()), tInt, "Int"}
		}
		e.fail("len of %s", v.typ)
	case "cap":
		v := e.tr(x.args[0])
		return val{fmt.Sprintf("(s_cap %s)", v.t), tInt, "Int"}
	case "arr":
		v := e.tr(x.args[0])
		return val{fmt.Sprintf("(s_arr %s)", v.t), tInt, "Int"}
	case "off":
		v := e.tr(x.args[0])
		return val{fmt.Sprintf("(s_off %s)", v.t), tInt, "Int"}
	case "elemptr":
		// elemptr(s, i): the pointer &s[i], as the term the code uses for it
		sv := e.tr(x.args[0])
		iv := e.tr(x.args[1])
		st, ok := sv.typ.Underlying().(*types.Slice)
		if !ok {
			e.fail("elemptr needs a slice")
		}
		l := g.elemLoc(sv, iv.t)
		return val{g.interiorPtr(l), types.NewPointer(st.Elem()), "Int"}
	case "has":
		m := e.tr(x.args[0])
		k := e.tr(x.args[1])
		mt, ok := m.typ.Underlying().(*types.Map)
		if !ok {
			e.fail("has() needs a map")
		}
		hk, _, _ := g.mapKeys(mt)
		return val{fmt.Sprintf("(select (select %s %s) %s)", g.read(e.st, hk), m.t, k.t), tBool, "Bool"}
	case "dom":
		m := e.tr(x.args[0])
		mt, ok := m.typ.Underlying().(*types.Map)
		if !ok {
			e.fail("dom() needs a map")
		}
		hk, _, _ := g.mapKeys(mt)
		st := &setType{mt.Key()}
		return val{fmt.Sprintf("(select %s %s)", g.read(e.st, hk), m.t), st, g.sortOf(st)}
	case "typeis":
		v := e.tr(x.args[0])
		t, ok := e.typeArg(x.args[1])
		if !ok {
			e.fail("typeis needs a type")
		}
		return val{g.typeTest(v.t, t), tBool, "Bool"}
	case "dyn":
		v := e.tr(x.args[0])
		return val{fmt.Sprintf("(i_dt %s)", v.t), tInt, "Int"}
	case "as":
		v := e.tr(x.args[0])
		t, ok := e.typeArg(x.args[1])
		if !ok {
			e.fail("as needs a type")
		}
		return val{g.fromIface(v.t, t), t, g.sortOf(t)}
	case "dyncall":
		// dyncall(f, args...): the result of a pure call through function value f
		f := e.tr(x.args[0])
		sig, ok := f.typ.Underlying().(*types.Signature)
		if !ok || sig.Results().Len() != 1 {
			e.fail("dyncall needs a function value with one result")
		}
		var as []val
		for i, a := range x.args[1:] {
			v := e.tr(a)
			if i < sig.Params().Len() {
				v = e.convert(v, sig.Params().At(i).Type())
			}
			as = append(as, v)
		}
		return g.dynApp(sig, f, as)
	case "raw":
		// raw(b, j): cell j (absolute index) of the backing array of slice b
		b := e.tr(x.args[0])
		j := e.tr(x.args[1])
		u, ok := b.typ.Underlying().(*types.Slice)
		if !ok {
			e.fail("raw needs a slice")
		}
		if _, isS := isStructVal(u.Elem()); isS {
			e.fail("raw: struct elements not supported")
		}
		k := g.registerElemKey(u.Elem())
		return e.noteLoad(val{fmt.Sprintf("(select (select %s (s_arr %s)) %s)", g.read(e.st, k), b.t, j.t), u.Elem(), g.sortOf(u.Elem())})
	case "iszero":
		// iszero(e): e is the zero value of its (Go) type
		v := e.tr(x.args[0])
		return val{fmt.Sprintf("(= %s %s)", v.t, g.zero(v.typ)), tBool, "Bool"}
	case "allocated":
		// the object exists in the current state (its reference is below the
		// allocation watermark)
		v := e.tr(x.args[0])
		t := v.t
		if v.sort == "Slice" {
			t = fmt.Sprintf("(s_arr %s)", v.t)
		} else if v.sort == "Iface" {
			t = fmt.Sprintf("(i_pl %s)", v.t)
		}
		return val{fmt.Sprintf("(<= %s %s)", t, e.st.alloc), tBool, "Bool"}
	case "fresh":
		v := e.tr(x.args[0])
		if e.old == nil {
			e.fail("fresh() not available")
		}
		t := v.t
		if v.sort == "Slice" {
			t = fmt.Sprintf("(s_arr %s)", v.t)
		} else if v.sort == "Iface" {
			t = fmt.Sprintf("(i_pl %s)", v.t)
		}
		return val{fmt.Sprintf("(> %s %s)", t, e.old.alloc), tBool, "Bool"}
	case "min":
		a, b := e.tr(x.args[0]), e.tr(x.args[1])
		return val{fmt.Sprintf("(imin %s %s)", a.t, b.t), a.typ, "Int"}
	case "max":
		a, b := e.tr(x.args[0]), e.tr(x.args[1])
		return val{fmt.Sprintf("(imax %s %s)", a.t, b.t), a.typ, "Int"}
	case "bits":
		a := e.tr(x.args[0])
		return val{fmt.Sprintf("(fpbits %s)", a.t), types.Typ[types.Uint64], "(_ BitVec 64)"}
	case "signbit":
		a := e.tr(x.args[0])
		if !isFloatSort(a.sort) {
			e.fail("signbit needs a float")
		}
		return val{fmt.Sprintf("(fp.isNegative %s)", a.t), tBool, "Bool"}
	case "isNaN":
		a := e.tr(x.args[0])
		if !isFloatSort(a.sort) {
			return val{"false", tBool, "Bool"}
		}
		return val{fmt.Sprintf("(fp.isNaN %s)", a.t), tBool, "Bool"}
	case "exactLT", "exactEQ":
		// exact numeric comparison of ints and finite floats (the order of their
		// mathematical values), decided without reals
		a := e.tr(x.args[0])
		b := e.tr(x.args[1])
		lt := func(a, b val) string {
			switch {
			case a.sort == "Int" && b.sort == "Int":
				return fmt.Sprintf("(< %s %s)", a.t, b.t)
			case isFloatSort(a.sort) && isFloatSort(b.sort):
				return fmt.Sprintf("(fp.lt %s %s)", a.t, b.t)
			case a.sort == "Int" && isFloatSort(b.sort):
				ii, ok := intInfoOf(a.typ)
				if !ok {
					ii = intInfo{true, 64}
				}
				return exactLessIntFloat(ii, a.t, b.t)
			case isFloatSort(a.sort) && b.sort == "Int":
				ii, ok := intInfoOf(b.typ)
				if !ok {
					ii = intInfo{true, 64}
				}
				return exactLessFloatInt(ii, a.t, b.t)
			}
			e.fail("%s on %s/%s", name, a.sort, b.sort)
			return ""
		}
		if name == "exactLT" {
			return val{lt(a, b), tBool, "Bool"}
		}
		return val{fmt.Sprintf("(and (not %s) (not %s))", lt(a, b), lt(b, a)), tBool, "Bool"}
	case "same":
		// identity (SMT =): for floats this distinguishes +0/-0 and equates NaN with itself
		a := e.tr(x.args[0])
		b := e.tr(x.args[1])
		a, b = e.unify(a, b)
		if a.sort != b.sort {
			e.fail("same() on %s/%s", a.sort, b.sort)
		}
		return val{fmt.Sprintf("(= %s %s)", a.t, b.t), tBool, "Bool"}
	case "isFinite":
		a := e.tr(x.args[0])
		if !isFloatSort(a.sort) {
			return val{"true", tBool, "Bool"}
		}
		return val{fmt.Sprintf("(and (not (fp.isNaN %s)) (not (fp.isInfinite %s)))", a.t, a.t), tBool, "Bool"}
	case "real":
		a := e.tr(x.args[0])
		switch {
		case a.sort == "Int":
			return val{fmt.Sprintf("(to_real %s)", a.t), realType{}, "Real"}
		case isFloatSort(a.sort):
			return val{fmt.Sprintf("(fp.to_real %s)", a.t), realType{}, "Real"}
		case a.sort == "Real":
			return a
		}
		e.fail("real() of %s", a.sort)
	case "setof":
		// setof(T) = empty set of T
		t, ok := e.typeArg(x.args[0])
		if !ok {
			e.fail("setof needs a type")
		}
		st := &setType{t}
		return val{fmt.Sprintf("((as const %s) false)", g.sortOf(st)), st, g.sortOf(st)}
	case "add":
		s := e.tr(x.args[0])
		k := e.tr(x.args[1])
		return val{fmt.Sprintf("(store %s %s true)", s.t, k.t), s.typ, s.sort}
	case "remove":
		s := e.tr(x.args[0])
		k := e.tr(x.args[1])
		return val{fmt.Sprintf("(store %s %s false)", s.t, k.t), s.typ, s.sort}
	case "subset":
		a := e.tr(x.args[0])
		b := e.tr(x.args[1])
		*e.nq++
		q := fmt.Sprintf("q!s!%d", *e.nq)
		es := g.sortOf(a.typ.(*setType).elem)
		return val{fmt.Sprintf("(forall ((%s %s)) (=> (select %s %s) (select %s %s)))", q, es, a.t, q, b.t, q), tBool, "Bool"}
	}
	if sf := g.w.cs.specs[name]; sf != nil {
		var args []val
		for i, a := range x.args {
			v := e.tr(a)
			// a concrete value passed for an interface-typed parameter is boxed
			if i < len(sf.params) && v.sort != "Iface" && v.sort != "nil" {
				if pt, err := g.resolveType(sf.params[i].typ, g.w.allTPkg[sf.pkgPath]); err == nil {
					if _, isI := pt.Underlying().(*types.Interface); isI {
						v = e.convert(v, pt)
					}
				}
			}
			args = append(args, v)
		}
		return e.specCall(sf, args)
	}
	if t, ok := e.typeArg(x.fun); ok && len(x.args) == 1 {
		return e.convert(e.tr(x.args[0]), t)
	}
	// pure Go function with a contract
	if pf := e.pureFunc(x.fun); pf != nil {
		var args []val
		for i, a := range x.args {
			v := e.tr(a)
			if i < len(pf.params) {
				if pt, err := g.resolveType(pf.params[i].typ, g.w.allTPkg[pf.pkgPath]); err == nil {
					v = e.convert(v, pt)
				}
			}
			args = append(args, v)
		}
		return g.pureApp(pf, args)
	}
	e.fail("unknown function %s", name)
	return val{}
}

func (e *cenv) pureFunc(f cexpr) *funcContract {
	g := e.g
	switch f := f.(type) {
	case *cIdent:
		if e.pkg != nil {
			if fc := g.w.cs.funcs[e.pkg.Path()+"::"+f.name]; fc != nil && fc.pure {
				return fc
			}
		}
	case *cSel:
		if id, ok := f.x.(*cIdent); ok {
			if p := g.findPkgByName(e.pkg, id.name); p != nil {
				if fc := g.w.cs.funcs[p.Path()+"::"+f.name]; fc != nil && fc.pure {
					return fc
				}
			}
		}
	}
	return nil
}

// pureApp applies the uninterpreted function symbol standing for a pure Go function.
func (g *fgen) pureApp(fc *funcContract, args []val) val {
	pkg := g.w.allTPkg[fc.pkgPath]
	if len(fc.results) != 1 {
		panic(transErr("pure function " + fc.key + " must have one result"))
	}
	rt, err := g.resolveType(fc.results[0].typ, pkg)
	if err != nil {
		panic(transErr(err.Error()))
	}
	name := "pf_" + mangle(shortPkg(fc.pkgPath)+"."+fc.key)
	if !g.declared[name] {
		g.declared[name] = true
		var ss []string
		for _, p := range fc.params {
			pt, err := g.resolveType(p.typ, pkg)
			if err != nil {
				panic(transErr(err.Error()))
			}
			ss = append(ss, g.sortOf(pt))
		}
		g.emit(fmt.Sprintf("(declare-fun %s (%s) %s)", name, strings.Join(ss, " "), g.sortOf(rt)))
		// the contract of a pure function holds for every application of its symbol
		// (it is what the function's own verification establishes); recursion-safe:
		// when verifying the function itself the axiom is not emitted
		isSelf := g.fc == fc
		if !isSelf && len(fc.ensures) > 0 && len(fc.params) > 0 && g.entry != nil {
			vars := map[string]val{}
			var bs, an []string
			okTypes := true
			for _, p := range fc.params {
				pt, err := g.resolveType(p.typ, pkg)
				if err != nil {
					okTypes = false
					break
				}
				bn := "a!" + p.name
				bs = append(bs, fmt.Sprintf("(%s %s)", bn, g.sortOf(pt)))
				an = append(an, bn)
				vars[p.name] = val{bn, pt, g.sortOf(pt)}
			}
			if okTypes {
				app := "(" + name + " " + strings.Join(an, " ") + ")"
				vars[fc.results[0].name] = val{app, rt, g.sortOf(rt)}
				nq := new(int)
				*nq = 900000
				env := &cenv{g: g, st: g.entry, old: g.entry, vars: vars, pkg: pkg, nq: nq}
				func() {
					defer func() {
						if r := recover(); r != nil {
							if _, isT := r.(transErr); !isT {
								panic(r)
							}
						}
					}()
					var pre, post []string
					for _, c := range fc.requires {
						pre = append(pre, env.bool(c.e))
					}
					for _, c := range fc.ensures {
						post = append(post, env.bool(c.e))
					}
					g.emit(fmt.Sprintf("(assert (forall (%s) (! %s :pattern (%s))))", strings.Join(bs, " "), implies(and(pre...), and(post...)), app))
				}()
			}
		}
	}
	var as []string
	for _, a := range args {
		as = append(as, a.t)
	}
	if len(as) == 0 {
		return val{name, rt, g.sortOf(rt)}
	}
	return val{"(" + name + " " + strings.Join(as, " ") + ")", rt, g.sortOf(rt)}
}

func (e *cenv) specCall(sf *specFunc, args []val) val {
	g := e.g
	if len(args) != len(sf.params) {
		e.fail("spec %s: want %d args, got %d", sf.name, len(sf.params), len(args))
	}
	pkg := g.w.allTPkg[sf.pkgPath]
	if pkg == nil {
		pkg = e.pkg
	}
	rt, err := g.resolveType(sf.result, pkg)
	if err != nil {
		e.fail("spec %s: %v", sf.name, err)
	}
	var ptypes []types.Type
	for _, p := range sf.params {
		pt, err := g.resolveType(p.typ, pkg)
		if err != nil {
			e.fail("spec %s: %v", sf.name, err)
		}
		ptypes = append(ptypes, pt)
	}
	for i := range args {
		if args[i].sort == "nil" {
			args[i] = val{g.zero(ptypes[i]), ptypes[i], g.sortOf(ptypes[i])}
		}
		if ws := g.sortOf(ptypes[i]); args[i].sort != ws {
			if ws == "Iface" {
				args[i] = val{g.makeIface(e.st, "true", args[i]), ptypes[i], ws}
			} else if isFloatSort(ws) && args[i].sort == "Int" {
				args[i] = val{fmt.Sprintf("((_ to_fp 11 53) RNE (to_real %s))", args[i].t), ptypes[i], ws}
			} else {
				e.fail("spec %s arg %d: want %s got %s", sf.name, i, ws, args[i].sort)
			}
		}
	}
	if sf.body != nil && !sf.rec {
		if e.depth > 40 {
			e.fail("spec function inlining too deep (%s)", sf.name)
		}
		// inline (macro): body may read the heap of the current state
		vars := map[string]val{}
		for i, p := range sf.params {
			vars[p.name] = val{args[i].t, ptypes[i], g.sortOf(ptypes[i])}
		}
		n := &cenv{g: g, st: e.st, old: e.old, vars: vars, pkg: pkg, nq: e.nq, depth: e.depth + 1, side: e.side, qside: e.qside, qbind: e.qbind, inOld: e.inOld, recSyms: e.recSyms}
		r := n.tr(sf.body)
		if r.sort == "nil" {
			r = val{g.zero(rt), rt, g.sortOf(rt)}
		}
		if isFloatSort(g.sortOf(rt)) && r.sort == "Int" {
			r = val{fmt.Sprintf("((_ to_fp 11 53) RNE (to_real %s))", r.t), rt, g.sortOf(rt)}
		}
		if r.sort != g.sortOf(rt) {
			e.fail("spec %s: body sort %s, declared %s", sf.name, r.sort, g.sortOf(rt))
		}
		return val{r.t, rt, r.sort}
	}
	name := "sf_" + sf.name
	var ss, bs []string
	vars := map[string]val{}
	for i, p := range sf.params {
		ss = append(ss, g.sortOf(ptypes[i]))
		bn := "a!" + p.name
		bs = append(bs, fmt.Sprintf("(%s %s)", bn, g.sortOf(ptypes[i])))
		vars[p.name] = val{bn, ptypes[i], g.sortOf(ptypes[i])}
	}
	if sf.body == nil {
		if !g.declared[name] {
			g.declared[name] = true
			g.emit(fmt.Sprintf("(declare-fun %s (%s) %s)", name, strings.Join(ss, " "), g.sortOf(rt)))
			// an uninterpreted spec function with a machine integer result type
			// takes values of that type only
			if b, ok := rt.Underlying().(*types.Basic); ok && rt != types.Type(tMathInt) && rt != types.Type(tRef) && b.Info()&types.IsInteger != 0 && len(bs) > 0 {
				var as []string
				for _, p := range sf.params {
					as = append(as, "a!"+p.name)
				}
				app := fmt.Sprintf("(%s %s)", name, strings.Join(as, " "))
				if w := g.wf(app, rt, "", 0); w != "true" {
					g.emit(fmt.Sprintf("(assert (forall (%s) (! %s :pattern (%s))))", strings.Join(bs, " "), w, app))
				}
			}
		}
	} else {
		// Recursive spec function, possibly reading the heap.  One function symbol per
		// distinct heap state (the versions of the heap cells the body reads), defined by
		// a quantified axiom; equal states share the symbol, so framing is automatic.
		if sym, ok := e.recSyms[sf.name]; ok {
			name = sym // recursive occurrence inside its own definition
		} else {
			// pass 1: discover the read set
			rec := map[string]bool{}
			savedRec := g.readRec
			g.readRec = rec
			probe := &cenv{g: g, st: e.st, old: e.old, vars: vars, pkg: pkg, nq: e.nq, depth: e.depth + 1, recSyms: map[string]string{}}
			for k, v := range e.recSyms {
				probe.recSyms[k] = v
			}
			probe.recSyms[sf.name] = "sf_probe_" + sf.name
			if !g.declared["sf_probe_"+sf.name] {
				g.declared["sf_probe_"+sf.name] = true
				g.emit(fmt.Sprintf("(declare-fun sf_probe_%s (%s) %s)", sf.name, strings.Join(ss, " "), g.sortOf(rt)))
			}
			probe.tr(sf.body)
			g.readRec = savedRec
			if savedRec != nil {
				for k := range rec {
					savedRec[k] = true
				}
			}
			var keys []string
			for k := range rec {
				keys = append(keys, k)
			}
			sort.Strings(keys)
			// The heap cells the body reads are explicit arguments of the function symbol
			// (one array per heap key): two states with equal cells give equal values by
			// congruence, so framing needs no lemma.
			var hs, hb, hv []string
			for i, k := range keys {
				hs = append(hs, g.heapSort[k])
				hb = append(hb, fmt.Sprintf("(h!%d %s)", i, g.heapSort[k]))
				hv = append(hv, fmt.Sprintf("h!%d", i))
			}
			if len(keys) > 0 {
				name = fmt.Sprintf("%s_k%x", name, hashString(strings.Join(keys, ";")))
			}
			if !g.declared[name] {
				g.declared[name] = true
				// fuel-limited unfolding (no matching loops): the symbol takes a Fuel
				// argument; the definition unfolds (FS f) into body over f, and fuel is
				// irrelevant to the value.  Uses outside the definition get two units.
				if !g.declared["sort:Fuel"] {
					g.declared["sort:Fuel"] = true
					g.emit("(declare-datatypes ((Fuel 0)) (((FZ) (FS (fpred Fuel)))))")
				}
				g.emit(fmt.Sprintf("(declare-fun %s (%s) %s)", name, strings.Join(append(append([]string{"Fuel"}, hs...), ss...), " "), g.sortOf(rt)))
				// a pseudo-state in which every read key is a bound array variable
				g.nepoch++
				ps := &state{heap: map[string]string{}, epoch: g.nepoch, alloc: e.st.alloc}
				g.epochs[ps.epoch] = &epochInfo{}
				for i, k := range keys {
					ps.heap[k] = hv[i]
				}
				n := &cenv{g: g, st: ps, old: ps, vars: vars, pkg: pkg, nq: e.nq, depth: e.depth + 1, recSyms: map[string]string{}}
				for k, v := range e.recSyms {
					n.recSyms[k] = v
				}
				n.recSyms[sf.name] = strings.TrimSpace(name + " f!fuel " + strings.Join(hv, " "))
				r := n.tr(sf.body)
				var an []string
				for _, p := range sf.params {
					an = append(an, "a!"+p.name)
				}
				fb := append(append([]string{"(f!fuel Fuel)"}, hb...), bs...)
				rest := strings.TrimSpace(strings.Join(hv, " ") + " " + strings.Join(an, " "))
				hi := strings.TrimSpace("(" + name + " (FS f!fuel) " + rest) + ")"
				lo := strings.TrimSpace("(" + name + " f!fuel " + rest) + ")"
				g.emit(fmt.Sprintf("(assert (forall (%s) (! (= %s %s) :pattern (%s))))", strings.Join(fb, " "), hi, r.t, hi))
				g.emit(fmt.Sprintf("(assert (forall (%s) (! (= %s %s) :pattern (%s))))", strings.Join(fb, " "), hi, lo, hi))
			}
			var cur []string
			for _, k := range keys {
				cur = append(cur, g.read(e.st, k))
			}
			name = strings.TrimSpace(name + " (FS (FS FZ)) " + strings.Join(cur, " "))
		}
	}
	var as []string
	for _, a := range args {
		as = append(as, a.t)
	}
	if len(as) == 0 {
		return val{name, rt, g.sortOf(rt)}
	}
	app := "(" + name + " " + strings.Join(as, " ") + ")"
	if sf.body == nil && e.side != nil && !strings.Contains(app, "q!") && !strings.Contains(app, "a!") {
		// an uninterpreted spec function returns a value of its declared Go type
		if _, isBasic := rt.Underlying().(*types.Basic); isBasic {
			if f := g.wf(app, rt, "", 0); f != "true" {
				*e.side = append(*e.side, f)
			}
		}
	}
	return val{app, rt, g.sortOf(rt)}
}

// safeTr translates a clause, converting translation failures into errors.
func (e *cenv) safeBool(c clause) (t string, err error) {
	defer func() {
		if r := recover(); r != nil {
			if te, ok := r.(transErr); ok {
				err = fmt.Errorf("%s: %s: %s", c.where, c.src, string(te))
				return
			}
			panic(r)
		}
	}()
	var side []string
	if e.side == nil {
		e.side = &side
	}
	t = e.bool(c.e)
	seen := map[string]bool{}
	for _, f := range *e.side {
		if !seen[f] {
			seen[f] = true
			e.g.fact(e.g.curGuard, f)
		}
	}
	*e.side = nil
	return t, nil
}

func (e *cenv) safeTr(c clause) (v val, err error) {
	defer func() {
		if r := recover(); r != nil {
			if te, ok := r.(transErr); ok {
				err = fmt.Errorf("%s: %s: %s", c.where, c.src, string(te))
				return
			}
			panic(r)
		}
	}()
	return e.tr(c.e), nil
}
