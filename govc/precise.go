package main

// Location-precise `modifies` items.
//
//	modifies x.f            only field f of the object x points to
//	modifies elems(x.m)     only the map (or the backing array of the slice) x.m
//
// (x a receiver or parameter).  Type-level items (`T.f`), ghosts, `pkg(..)`, `elems`,
// `heap` and `*` stay coarse: the whole heap cell array is havocked.
//
// Caller side: the heap array of a precisely-modified key is updated only at the named
// objects.  Callee side: at every return an obligation says that every other object
// allocated at entry still has its entry value for that key.

import (
	"fmt"
	"go/token"
	"go/types"
	"sort"
	"strings"
)

type preciseInfo struct {
	bases  map[string][]string // heap key -> base terms (refs / array refs / map refs)
	coarse map[string]bool     // keys named by some non-precise item
}

// preciseLocs evaluates the modifies items of fc in env (receiver/params bound).
func (g *fgen) preciseLocs(fc *funcContract, env *cenv) (pi *preciseInfo) {
	pi = &preciseInfo{bases: map[string][]string{}, coarse: map[string]bool{}}
	for _, item := range fc.modifies {
		item = strings.TrimSpace(item)
		if item == "*" || item == "heap" || item == "elems" || strings.HasPrefix(item, "pkg(") || g.w.cs.ghosts[item] != nil {
			continue
		}
		keys, err := g.modKeys(fc, item)
		if err != nil {
			continue
		}
		ok := g.tryPrecise(fc, env, item, pi)
		if !ok {
			for _, k := range sortedKeys(keys) {
				pi.coarse[k] = true
			}
		}
	}
	for _, k := range sortedKeys(pi.coarse) {
		delete(pi.bases, k)
	}
	return pi
}

func (g *fgen) tryPrecise(fc *funcContract, env *cenv, item string, pi *preciseInfo) (ok bool) {
	defer func() {
		if r := recover(); r != nil {
			if _, isT := r.(transErr); isT {
				ok = false
				return
			}
			panic(r)
		}
	}()
	elems := false
	if strings.HasPrefix(item, "elems(") && strings.HasSuffix(item, ")") {
		elems = true
		item = item[6 : len(item)-1]
	}
	x, err := parseCExpr(item)
	if err != nil {
		return false
	}
	// the root identifier must be the receiver or a parameter
	root := x
	for {
		if s, isSel := root.(*cSel); isSel {
			root = s.x
			continue
		}
		break
	}
	id, isId := root.(*cIdent)
	if !isId {
		return false
	}
	if _, bound := env.vars[id.name]; !bound {
		return false
	}
	if elems {
		v := env.tr(x)
		switch u := v.typ.Underlying().(type) {
		case *types.Map:
			h, vk, l := g.mapKeys(u)
			for _, k := range []string{h, vk, l} {
				pi.bases[k] = append(pi.bases[k], v.t)
			}
			return true
		case *types.Slice:
			if _, isS := isStructVal(u.Elem()); isS {
				l := &loc{root: rootElem, rootT: g.elemKeyName(u.Elem()), typ: u.Elem()}
				var keys []string
				g.leafKeysOf(l, nil, u.Elem(), &keys)
				for _, k := range keys {
					pi.bases[k] = append(pi.bases[k], fmt.Sprintf("(s_arr %s)", v.t))
				}
				return true
			}
			k := g.registerElemKey(u.Elem())
			pi.bases[k] = append(pi.bases[k], fmt.Sprintf("(s_arr %s)", v.t))
			return true
		}
		return false
	}
	sel, isSel := x.(*cSel)
	if !isSel {
		// whole object behind a pointer parameter
		v := env.tr(x)
		p, isP := v.typ.Underlying().(*types.Pointer)
		if !isP {
			return false
		}
		l := g.ptrLoc(v.t, p.Elem())
		var keys []string
		g.leafKeysOf(l, l.path, l.typ, &keys)
		for _, k := range keys {
			pi.bases[k] = append(pi.bases[k], v.t)
		}
		return true
	}
	cur := env.tr(sel.x)
	obj, path, _ := types.LookupFieldOrMethod(cur.typ, true, nil, sel.name)
	if obj == nil {
		var pk *types.Package
		if n, isN := derefNamed(cur.typ); isN && n.Obj().Pkg() != nil {
			pk = n.Obj().Pkg()
		}
		obj, path, _ = types.LookupFieldOrMethod(cur.typ, true, pk, sel.name)
	}
	if _, isVar := obj.(*types.Var); !isVar || len(path) == 0 {
		return false
	}
	for _, i := range path[:len(path)-1] {
		cur = env.fieldOf(cur, i)
	}
	s, T, isPS := derefStruct(cur.typ)
	if !isPS {
		return false
	}
	last := path[len(path)-1]
	l := &loc{root: rootField, rootT: typeName(T), path: []int{last}, base: cur.t, typ: s.Field(last).Type()}
	var keys []string
	g.leafKeysOf(l, l.path, l.typ, &keys)
	for _, k := range keys {
		pi.bases[k] = append(pi.bases[k], cur.t)
	}
	return true
}

// applyPrecise replaces whole-key havoc by updates at the named objects only.
// ms is the coarse declared mod-set; returns the keys handled here.
func (g *fgen) applyPrecise(pi *preciseInfo, ms *modset, st *state) {
	var keys []string
	for _, k := range sortedKeys(pi.bases) {
		if _, ok := ms.any[k]; ok {
			keys = append(keys, k)
		}
	}
	sort.Strings(keys)
	for _, k := range keys {
		me := ms.any[k]
		me.register(g, k)
		srt := g.heapSort[k]
		if srt == "" || strings.HasPrefix(k, "G_") {
			continue
		}
		old := g.read(st, k)
		fresh := g.fresh("H_"+k+"_hv", srt)
		term := old
		for _, b := range pi.bases[k] {
			term = fmt.Sprintf("(store %s %s (select %s %s))", term, b, fresh, b)
		}
		n := g.fresh("H_"+k, srt)
		g.fact("true", fmt.Sprintf("(= %s %s)", n, term))
		st.heap[k] = n
		delete(ms.any, k)
	}
}

// frameObligations: callee side of the precise items, asserted at a return.
func (g *fgen) frameObligations(st *state, pos token.Pos, site string) {
	if g.precise == nil {
		return
	}
	var keys []string
	for _, k := range sortedKeys(g.precise.bases) {
		keys = append(keys, k)
	}
	sort.Strings(keys)
	for _, k := range keys {
		if _, known := g.heapSort[k]; !known || strings.HasPrefix(k, "G_") {
			continue
		}
		cur, old := g.read(st, k), g.read(g.entry, k)
		if cur == old {
			continue
		}
		var conds []string
		conds = append(conds, "(<= r!f alloc0)")
		for _, b := range g.precise.bases[k] {
			conds = append(conds, fmt.Sprintf("(not (= r!f %s))", b))
		}
		goal := fmt.Sprintf("(forall ((r!f Int)) (=> (and %s) (= (select %s r!f) (select %s r!f))))", strings.Join(conds, " "), cur, old)
		g.oblige("frame", k+"@"+site, goal, pos)
		g.obls[len(g.obls)-1].src = "only the objects named in `modifies` may change in " + k
	}
}
