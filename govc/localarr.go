package main

// Arrays made by the function under proof.  The backing array of a slice created by
// `make` in this function (and whatever `append` reallocates it into) is reachable only
// through the slice values derived from it.  As long as none of those values has been
// handed to anybody - passed to a call, stored, returned, boxed, captured - on any path
// that can precede a call, the callee cannot write the array's elements, whatever its
// (coarse) frame says.  After such a call the rows of those arrays are restored.

import (
	"fmt"
	"go/token"
	"go/types"
	"strings"

	"golang.org/x/tools/go/ssa"
)

type localArray struct {
	root    *ssa.MakeSlice
	vals    []ssa.Value       // slice-typed values derived from root (root included)
	escapes []ssa.Instruction // uses that may make the array visible to others
	elem    types.Type
}

func (g *fgen) findLocalArrays() {
	for _, b := range g.fn.Blocks {
		for _, in := range b.Instrs {
			m, ok := in.(*ssa.MakeSlice)
			if !ok {
				continue
			}
			st, ok := m.Type().Underlying().(*types.Slice)
			if !ok {
				continue
			}
			la := &localArray{root: m, elem: st.Elem()}
			seen := map[ssa.Value]bool{}
			ptrs := map[ssa.Value]bool{}
			var work []ssa.Value
			add := func(v ssa.Value) {
				if !seen[v] {
					seen[v] = true
					la.vals = append(la.vals, v)
					work = append(work, v)
				}
			}
			var pwork []ssa.Value
			addPtr := func(v ssa.Value) {
				if !ptrs[v] {
					ptrs[v] = true
					pwork = append(pwork, v)
				}
			}
			add(m)
			for len(work) > 0 || len(pwork) > 0 {
				if len(work) > 0 {
					v := work[len(work)-1]
					work = work[:len(work)-1]
					refs := v.Referrers()
					if refs == nil {
						continue
					}
					for _, u := range *refs {
						switch x := u.(type) {
						case *ssa.DebugRef:
						case *ssa.Phi:
							add(x)
						case *ssa.Slice:
							if x.X == v {
								add(x)
							}
						case *ssa.ChangeType:
							add(x)
						case *ssa.IndexAddr:
							if x.X == v {
								addPtr(x)
							} else {
								la.escapes = append(la.escapes, u)
							}
						case *ssa.Range:
						case *ssa.BinOp:
							// comparison with nil
						case *ssa.If:
						case *ssa.Call:
							if bi, ok := x.Call.Value.(*ssa.Builtin); ok {
								switch bi.Name() {
								case "len", "cap", "copy", "clear":
									continue
								case "append":
									if len(x.Call.Args) > 0 && x.Call.Args[0] == v {
										add(x)
									}
									continue
								}
							}
							la.escapes = append(la.escapes, u)
						default:
							la.escapes = append(la.escapes, u)
						}
					}
					continue
				}
				p := pwork[len(pwork)-1]
				pwork = pwork[:len(pwork)-1]
				refs := p.Referrers()
				if refs == nil {
					continue
				}
				for _, u := range *refs {
					switch x := u.(type) {
					case *ssa.DebugRef:
					case *ssa.UnOp:
						if x.Op != token.MUL {
							la.escapes = append(la.escapes, u)
						}
					case *ssa.Store:
						if x.Val == p {
							la.escapes = append(la.escapes, u)
						}
					case *ssa.FieldAddr:
						if x.X == p {
							addPtr(x)
						} else {
							la.escapes = append(la.escapes, u)
						}
					default:
						la.escapes = append(la.escapes, u)
					}
				}
			}
			// a pointer-typed or interface-typed element stored INTO the array is not an
			// escape of the array; nothing more to check
			g.localArrays = append(g.localArrays, la)
		}
	}
}

// mayPrecede: instruction u can execute before (or is) the call c.
func mayPrecede(u ssa.Instruction, c ssa.Instruction) bool {
	if u == c {
		return true
	}
	ub, cb := u.Block(), c.Block()
	if ub == cb {
		for _, x := range ub.Instrs {
			if x == u {
				return true
			}
			if x == c {
				break
			}
		}
	}
	seen := map[*ssa.BasicBlock]bool{}
	work := append([]*ssa.BasicBlock{}, ub.Succs...)
	for len(work) > 0 {
		n := work[len(work)-1]
		work = work[:len(work)-1]
		if seen[n] {
			continue
		}
		seen[n] = true
		if n == cb {
			return true
		}
		work = append(work, n.Succs...)
	}
	return false
}

// restoreLocalArrays: after the call `in`, the rows of the arrays this function made and
// has not yet shown to anybody hold what they held before the call.
func (g *fgen) restoreLocalArrays(in ssa.CallInstruction, before, st *state) {
	if len(g.localArrays) == 0 {
		return
	}
	ci, ok := in.(ssa.Instruction)
	if !ok {
		return
	}
	for _, la := range g.localArrays {
		visible := false
		for _, u := range la.escapes {
			if mayPrecede(u, ci) {
				visible = true
				break
			}
		}
		if visible {
			continue
		}
		l := &loc{root: rootElem, rootT: g.elemKeyName(la.elem), base: "0", idx: "0", typ: la.elem}
		var keys []string
		g.leafKeysOf(l, nil, la.elem, &keys)
		done := map[string]bool{}
		for _, v := range la.vals {
			tv, ok := g.vals[v]
			if !ok || tv.sort != "Slice" {
				continue
			}
			arr := fmt.Sprintf("(s_arr %s)", tv.t)
			if done[arr] {
				continue
			}
			done[arr] = true
			for _, k := range keys {
				if strings.HasPrefix(k, "G_") {
					continue
				}
				old := g.read(before, k)
				cur := g.read(st, k)
				if old == cur {
					continue
				}
				n := g.fresh("H_"+k, g.heapSort[k])
				g.fact("true", fmt.Sprintf("(= %s (store %s %s (select %s %s)))", n, cur, arr, old, arr))
				st.heap[k] = n
			}
		}
		g.assum["arrays made by "+g.key+" and not yet handed to anybody are not written by its callees"] = true
	}
}
