package main

// Lock discipline ("guarded-by"):
//
//	//@ guarded (c *Context) c.mu: byID, toType, toValue, typedefs
//
// Every load of a guarded field needs the object's mutex in the ghost set heldW or
// heldR; every store needs it in heldW.  The sets are maintained by the trusted
// contracts of sync.Mutex / sync.RWMutex.  This decides data-race freedom by lock
// discipline for the functions under contract, not atomicity of multi-step protocols.

import (
	"fmt"
	"go/token"
	"go/types"
	"sort"

	"golang.org/x/tools/go/ssa"
)

type guardInfo struct {
	decl     *guardDecl
	rootT    string // mangled struct type
	T        types.Type
	muIdx    int
	muType   types.Type
	fieldIdx map[int]string
}

func (g *fgen) setupGuards() {
	for _, gd := range g.w.cs.guards {
		pkg := g.w.allTPkg[gd.pkgPath]
		if pkg == nil {
			continue
		}
		ct, err := parseTypeString(gd.recvType)
		if err != nil {
			continue
		}
		t, err := g.resolveType(ct, pkg)
		if err != nil {
			continue
		}
		s, T, ok := derefStruct(t)
		if !ok {
			continue
		}
		gi := &guardInfo{decl: gd, rootT: typeName(T), T: T, muIdx: -1, fieldIdx: map[int]string{}}
		for i := 0; i < s.NumFields(); i++ {
			if s.Field(i).Name() == gd.mutex {
				gi.muIdx = i
				gi.muType = s.Field(i).Type()
			}
			for _, f := range gd.fields {
				if s.Field(i).Name() == f {
					gi.fieldIdx[i] = f
				}
			}
		}
		if gi.muIdx >= 0 {
			g.guardInfos = append(g.guardInfos, gi)
		}
	}
}

// guardCheck emits the lock-held obligation for an access through l.
func (g *fgen) guardCheck(st *state, l *loc, write bool, pos token.Pos) {
	if len(g.guardInfos) == 0 || l == nil || l.root != rootField || len(l.path) == 0 || l.fresh {
		return
	}
	for _, gi := range g.guardInfos {
		if gi.rootT != l.rootT {
			continue
		}
		name, ok := gi.fieldIdx[l.path[0]]
		if !ok {
			continue
		}
		if g.freshRefs[l.base] {
			return // object allocated in this function and not yet shared
		}
		mu := g.interiorPtr(&loc{root: rootField, rootT: gi.rootT, path: []int{gi.muIdx}, base: l.base, typ: gi.muType})
		kw, gw := g.ghostKey("heldW")
		kr, gr := g.ghostKey("heldR")
		if gw == nil || gr == nil {
			return
		}
		var goal string
		if write {
			goal = fmt.Sprintf("(select %s %s)", g.read(st, kw), mu)
		} else {
			goal = fmt.Sprintf("(or (select %s %s) (select %s %s))", g.read(st, kw), mu, g.read(st, kr), mu)
		}
		kind := "guard-read"
		if write {
			kind = "guard-write"
		}
		g.oblige(kind, name+"@"+g.siteLabel(pos, "access"), goal, pos)
		g.obls[len(g.obls)-1].src = "field " + name + " is guarded by the object's mutex"
	}
}

// releasedBefore: some path through the function releases a mutex (same struct type,
// same field) and then reaches the acquisition `in`.  Deferred releases run at function
// exit and never precede an acquisition.
func (g *fgen) releasedBefore(in ssa.CallInstruction, rootT string, field int) bool {
	isRelease := func(x ssa.Instruction) bool {
		ci, ok := x.(*ssa.Call)
		if !ok {
			return false
		}
		c := ci.Common()
		if c.IsInvoke() || len(c.Args) == 0 {
			return false
		}
		callee := c.StaticCallee()
		if callee == nil || callee.Pkg == nil || callee.Pkg.Pkg.Path() != "sync" {
			return false
		}
		if n := callee.Name(); n != "Unlock" && n != "RUnlock" {
			return false
		}
		fa, ok := c.Args[0].(*ssa.FieldAddr)
		if !ok {
			return false
		}
		_, T, ok := derefStruct(fa.X.Type())
		return ok && typeName(T) == rootT && fa.Field == field
	}
	target := in.Block()
	for _, b := range g.fn.Blocks {
		for i, x := range b.Instrs {
			if !isRelease(x) {
				continue
			}
			if b == target {
				for _, y := range b.Instrs[i+1:] {
					if y == ssa.Instruction(in) {
						return true
					}
				}
			}
			// reachability through successors
			seen := map[*ssa.BasicBlock]bool{}
			work := append([]*ssa.BasicBlock{}, b.Succs...)
			for len(work) > 0 {
				n := work[len(work)-1]
				work = work[:len(work)-1]
				if seen[n] {
					continue
				}
				seen[n] = true
				if n == target {
					return true
				}
				work = append(work, n.Succs...)
			}
		}
	}
	return false
}

// lockInterference: acquiring the mutex of a guarded object (Lock or RLock) is the point
// where the writes other goroutines made while the lock was free become visible.  After
// an acquisition that follows a release of the same mutex in the same function, the
// guarded fields of the object, and what they hold (slice elements, map contents), are
// unknown: nothing learnt about them in an earlier critical section survives into the
// next one.  (The first critical section is not havocked: the function's entry state is
// taken to be the state at its first acquisition.)  Type invariants are assumed again by
// the caller.
func (g *fgen) lockInterference(in ssa.CallInstruction, st *state) {
	if len(g.guardInfos) == 0 {
		return
	}
	c := in.Common()
	if c.IsInvoke() || len(c.Args) == 0 {
		return
	}
	callee := c.StaticCallee()
	if callee == nil || callee.Pkg == nil || callee.Pkg.Pkg.Path() != "sync" {
		return
	}
	if n := callee.Name(); n != "Lock" && n != "RLock" {
		return
	}
	fa, ok := c.Args[0].(*ssa.FieldAddr)
	if !ok {
		return
	}
	_, T, ok := derefStruct(fa.X.Type())
	if !ok {
		return
	}
	for _, gi := range g.guardInfos {
		if gi.rootT != typeName(T) || gi.muIdx != fa.Field {
			continue
		}
		base := g.get(fa.X)
		if g.freshRefs[base.t] {
			return // not yet shared
		}
		if !g.releasedBefore(in, typeName(T), fa.Field) {
			// first critical section on every path: the function's entry state is
			// taken to be the state at this acquisition
			continue
		}
		rt, err := parseTypeString(gi.decl.recvType)
		if err != nil {
			return
		}
		fc := &funcContract{pkgPath: gi.decl.pkgPath, key: "lock of " + gi.decl.recvType + "." + gi.decl.mutex, recvName: "xguard", recvType: rt, hasMod: true}
		st0, _, _ := derefStruct(fa.X.Type())
		for i, f := range gi.fieldIdx {
			fc.modifies = append(fc.modifies, "xguard."+f)
			switch st0.Field(i).Type().Underlying().(type) {
			case *types.Slice, *types.Map:
				fc.modifies = append(fc.modifies, "elems(xguard."+f+")")
			}
		}
		sort.Strings(fc.modifies)
		nq := new(int)
		*nq = 1000 * (len(g.obls) + 1)
		pre := st.clone()
		env := &cenv{g: g, st: pre, old: pre, vars: map[string]val{"xguard": base}, pkg: g.w.allTPkg[gi.decl.pkgPath], nq: nq}
		ms := newModset()
		g.w.declMods(g, fc, ms)
		if !ms.all {
			g.applyPrecise(g.preciseLocs(fc, env), ms, st)
		}
		g.applyModset(ms, st, fc.key)
		post := &cenv{g: g, st: st, old: pre, vars: map[string]val{gi.decl.recvName: base}, pkg: g.w.allTPkg[gi.decl.pkgPath], nq: nq}
		for _, c := range gi.decl.rely {
			t, err := post.safeBool(c)
			if err != nil {
				panic(transErr(err.Error()))
			}
			g.fact(g.curGuard, t)
			g.assum["rely on other goroutines ("+gi.decl.recvType+"): "+c.src] = true
		}
		g.assum["other goroutines change the guarded fields of a "+gi.decl.recvType+" only while its "+gi.decl.mutex+" is not held by this one (modelled: the fields are unknown at an acquisition that follows a release in the same function; the entry state stands for the state at the first acquisition)"] = true
	}
}
