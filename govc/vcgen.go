package main

import (
	"regexp"
	"fmt"
	"go/constant"
	"go/token"
	"go/types"
	"sort"
	"strings"

	"golang.org/x/tools/go/ssa"
)

type val struct {
	t    string
	typ  types.Type
	sort string
}

type state struct {
	heap  map[string]string
	epoch int
	alloc string
}

func (s *state) clone() *state {
	n := &state{heap: make(map[string]string, len(s.heap)), epoch: s.epoch, alloc: s.alloc}
	for k, v := range s.heap {
		n.heap[k] = v
	}
	return n
}

type epochPred struct {
	guard string
	st    *state
}

type epochInfo struct {
	preds []epochPred // merge epoch if non-empty
	// except: keys for which nothing is inherited from preds (havocked by a coarse frame)
	except func(key string) bool
	// freshOnly: for excepted keys, cells at refs <= this watermark are still inherited
	freshAbove string
}

type obligation struct {
	quickOnly bool
	retried   bool // solved a second time after the first attempt ran out of time
	noRetry   bool // unclaimed obligation in the thorough tier: one attempt only
	name   string
	fn     string
	kind   string
	goal   string
	guard  string
	nlines int
	src    string
	pos    string
	expect string // "unsat" (default) or "sat" for cover checks
	// filled by solver
	status string
	solver string
	ms     int64
	model  string
	gen    *fgen
	extra  []string // extra lines (for lemmas)
}

const (
	rootField = iota
	rootElem
	rootBox
	rootGlobal
)

// loc is a symbolic memory location (possibly of composite type).
type loc struct {
	root  int
	rootT string
	path  []int
	base  string // ref term, or array-ref term for elem
	idx   string // element index (absolute) for elem roots
	sub   []string
	subT  []*types.Array // array types of the sub-indexed containers
	typ   types.Type     // type stored at this location
	fresh bool
}

type loopInfo struct {
	header  *ssa.BasicBlock
	ordinal int
	body    map[*ssa.BasicBlock]bool
	spec    *loopSpec
	mods    *modset
	// state at header after havoc, for decreases
	decAtHead string
	phiVals   map[*ssa.Phi]string
}

type fgen struct {
	w             *world
	fn            *ssa.Function
	fc            *funcContract
	pkgPath       string
	key           string
	lines         []string
	declared      map[string]bool
	heapSort      map[string]string
	nfresh        int
	vals          map[ssa.Value]val
	tuples        map[ssa.Value][]val
	locs          map[ssa.Value]*loc
	guards        map[*ssa.BasicBlock]string
	out           map[*ssa.BasicBlock]*state
	edgeCond      map[[2]int]string
	entry         *state
	epochs        map[int]*epochInfo
	nepoch        int
	obls          []*obligation
	oblSeq        map[string]int
	loops         map[*ssa.BasicBlock]*loopInfo
	oos           []string // out-of-subset reasons
	assum         map[string]bool
	defers        []*ssa.Defer
	retGuards     []string
	params        map[string]val
	results       []val
	curBlock      *ssa.BasicBlock
	curGuard      string
	usedContracts map[string]bool
	localNames    map[string][]ssa.Value
	quiet         bool
	ginvs         []*ginv
	deferGuard    map[*ssa.Defer]string
	readRec       map[string]bool // when non-nil, records the heap keys read
	precise       *preciseInfo    // location-precise modifies items of the function under verification
	stackLocals   []stackLocal    // non-escaping locals (callees cannot write them)
	guardInfos    []*guardInfo
	freshRefs     map[string]bool // refs allocated by this function
	ginvExempt    []string        // refs of objects under construction at the current call
	localArrays   []*localArray   // arrays made by this function (see localarr.go)
	fullHavocs    []*fullHavoc // unbounded-frame calls seen so far
	factSeen      map[string]bool
	constSort     map[string]string // declared constants and their sorts
	curClosure    *ssa.MakeClosure // the closure value being called (its bindings)
	witTerms      []val // instantiation hints of the contract (witness clauses)
	intKeys       map[string]intInfo // heap keys whose cells hold a machine integer type
	quantReqs     []quantAssumed
	instDone      map[string]bool
	instTerms     []string
}

func (g *fgen) emit(s string) { g.lines = append(g.lines, s) }

func (g *fgen) declare(name, sort string) {
	if g.declared[name] {
		return
	}
	g.declared[name] = true
	if g.constSort == nil {
		g.constSort = map[string]string{}
	}
	g.constSort[name] = sort
	g.emit(fmt.Sprintf("(declare-const %s %s)", name, sort))
	if len(name) > 1 && name[0] == 'H' {
		g.heapTyping(name, sort)
	}
}

var reHeapName = regexp.MustCompile(`^H[0-9]*_(.*?)(?:_hv)?(?:![0-9]+)?$`)

// heapTyping: every version of a heap array whose cells hold a machine integer of a
// known type holds values in that type's range (Go typing, an invariant of the memory
// model).  Stated once per version with a plain select pattern.
func (g *fgen) heapTyping(name, sort string) {
	m := reHeapName.FindStringSubmatch(name)
	if m == nil {
		return
	}
	ii, ok := g.intKeys[m[1]]
	if !ok {
		return
	}
	switch sort {
	case "Int":
		g.emit(fmt.Sprintf("(assert (and (<= %s %s) (<= %s %s)))", ii.min(), name, name, ii.max()))
	case "(Array Int Int)":
		g.emit(fmt.Sprintf("(assert (forall ((r!t Int)) (! (and (<= %s (select %s r!t)) (<= (select %s r!t) %s)) :pattern ((select %s r!t)))))", ii.min(), name, name, ii.max(), name))
	case "(Array Int (Array Int Int))":
		g.emit(fmt.Sprintf("(assert (forall ((r!t Int) (i!t Int)) (! (and (<= %s (select (select %s r!t) i!t)) (<= (select (select %s r!t) i!t) %s)) :pattern ((select (select %s r!t) i!t)))))", ii.min(), name, name, ii.max(), name))
	}
}

// noteKeyType records the machine integer type held by the cells of heap key k.
func (g *fgen) noteKeyType(k string, root int, t types.Type) {
	if root == rootBox {
		return // box heaps are shared by all types of one sort
	}
	if b, ok := t.Underlying().(*types.Basic); ok && b.Info()&types.IsInteger != 0 {
		if ii, ok := intInfoOf(t); ok {
			if g.intKeys == nil {
				g.intKeys = map[string]intInfo{}
			}
			g.intKeys[k] = ii
		}
	}
}

func (g *fgen) fresh(prefix, sort string) string {
	g.nfresh++
	n := fmt.Sprintf("%s!%d", prefix, g.nfresh)
	g.declare(n, sort)
	return n
}

func (g *fgen) fact(guard, f string) {
	if f == "true" {
		return
	}
	line := "(assert " + implies(guard, f) + ")"
	if g.factSeen == nil {
		g.factSeen = map[string]bool{}
	}
	if g.factSeen[line] {
		return
	}
	g.factSeen[line] = true
	g.emit(line)
}

func (g *fgen) unsupported(format string, a ...any) {
	g.oos = append(g.oos, fmt.Sprintf(format, a...))
}

// ---------- sorts ----------

func (g *fgen) sortOf(t types.Type) string {
	switch u := t.(type) {
	case *setType:
		return "(Array " + g.sortOf(u.elem) + " Bool)"
	case realType:
		return "Real"
	case *seqType:
		return "(Array Int " + g.sortOf(u.elem) + ")"
	}
	switch u := t.Underlying().(type) {
	case *types.Basic:
		switch {
		case u.Info()&types.IsBoolean != 0:
			return "Bool"
		case u.Info()&types.IsInteger != 0:
			return "Int"
		case u.Info()&types.IsString != 0:
			return "String"
		case u.Kind() == types.Float64, u.Kind() == types.UntypedFloat:
			return "(_ FloatingPoint 11 53)"
		case u.Kind() == types.Float32:
			return "(_ FloatingPoint 8 24)"
		case u.Kind() == types.UnsafePointer:
			return "Int"
		case u.Kind() == types.UntypedNil:
			return "Int"
		}
		return "Int"
	case *types.Pointer, *types.Map, *types.Chan, *types.Signature:
		return "Int"
	case *types.Slice:
		return "Slice"
	case *types.Interface:
		return "Iface"
	case *types.Struct:
		return g.structSort(t, u)
	case *types.Array:
		return g.arraySort(u)
	case *types.Tuple:
		return "Int"
	case *types.TypeParam:
		return "Iface"
	}
	return "Int"
}

func (g *fgen) structSort(t types.Type, u *types.Struct) string {
	name := "S_" + typeName(t)
	if len(name) > 120 {
		name = fmt.Sprintf("S_anon%d_%x", u.NumFields(), hashString(name))
	}
	if g.declared["sort:"+name] {
		return name
	}
	g.declared["sort:"+name] = true
	var fs []string
	for i := 0; i < u.NumFields(); i++ {
		fs = append(fs, fmt.Sprintf("(%s_f%d %s)", name, i, g.sortOf(u.Field(i).Type())))
	}
	if len(fs) == 0 {
		g.emit(fmt.Sprintf("(declare-datatypes ((%s 0)) (((mk_%s))))", name, name))
	} else {
		g.emit(fmt.Sprintf("(declare-datatypes ((%s 0)) (((mk_%s %s))))", name, name, strings.Join(fs, " ")))
	}
	return name
}

func hashString(s string) uint32 {
	var h uint32 = 2166136261
	for i := 0; i < len(s); i++ {
		h ^= uint32(s[i])
		h *= 16777619
	}
	return h
}

func (g *fgen) zero(t types.Type) string {
	switch u := t.Underlying().(type) {
	case *types.Basic:
		switch {
		case u.Info()&types.IsBoolean != 0:
			return "false"
		case u.Info()&types.IsString != 0:
			return "\"\""
		case u.Kind() == types.Float64 || u.Kind() == types.UntypedFloat:
			return "(_ +zero 11 53)"
		case u.Kind() == types.Float32:
			return "(_ +zero 8 24)"
		}
		return "0"
	case *types.Slice:
		return "(mk_slice 0 0 0 0)"
	case *types.Interface, *types.TypeParam:
		return "(mk_iface 0 0)"
	case *types.Struct:
		s := g.structSort(t, u)
		if u.NumFields() == 0 {
			return "mk_" + s
		}
		var fs []string
		for i := 0; i < u.NumFields(); i++ {
			fs = append(fs, g.zero(u.Field(i).Type()))
		}
		return "(mk_" + s + " " + strings.Join(fs, " ") + ")"
	case *types.Array:
		return g.arraySort(u) + "_zero"
	}
	return "0"
}

// arraySort: Go array *values* [N]T are an uninterpreted sort with get/set functions
// (not SMT arrays: they are used as map keys and compared with ==, and solvers handle
// array-indexed arrays badly).  Backing arrays of slices stay SMT arrays.
func (g *fgen) arraySort(a *types.Array) string {
	es := g.sortOf(a.Elem())
	name := fmt.Sprintf("Arr%d_%s", a.Len(), mangle(es))
	if g.declared["sort:"+name] {
		return name
	}
	g.declared["sort:"+name] = true
	g.emit(fmt.Sprintf("(declare-sort %s 0)", name))
	g.emit(fmt.Sprintf("(declare-fun %s_get (%s Int) %s)", name, name, es))
	g.emit(fmt.Sprintf("(declare-fun %s_set (%s Int %s) %s)", name, name, es, name))
	g.emit(fmt.Sprintf("(declare-const %s_zero %s)", name, name))
	g.emit(fmt.Sprintf("(assert (forall ((a!a %s) (i!a Int) (v!a %s) (j!a Int)) (! (= (%s_get (%s_set a!a i!a v!a) j!a) (ite (= i!a j!a) v!a (%s_get a!a j!a))) :pattern ((%s_get (%s_set a!a i!a v!a) j!a)))))",
		name, es, name, name, name, name, name))
	g.emit(fmt.Sprintf("(assert (forall ((i!a Int)) (! (= (%s_get %s_zero i!a) %s) :pattern ((%s_get %s_zero i!a)))))", name, name, g.zero(a.Elem()), name, name))
	// no extensionality axiom: it would be inconsistent with set() at an index >= N
	// (sound to omit; equality of arrays built cell by cell is then not provable)
	return name
}

func (g *fgen) arrGet(a *types.Array, arr, i string) string {
	return fmt.Sprintf("(%s_get %s %s)", g.arraySort(a), arr, i)
}

func (g *fgen) arrSet(a *types.Array, arr, i, v string) string {
	return fmt.Sprintf("(%s_set %s %s %s)", g.arraySort(a), arr, i, v)
}

// arrFromSMT: an array value whose cells equal those of an SMT (Array Int T) term.
func (g *fgen) arrFromSMT(a *types.Array, smt string) string {
	s := g.arraySort(a)
	n := g.fresh("arrv", s)
	if a.Len() <= 32 {
		for i := int64(0); i < a.Len(); i++ {
			g.fact("true", fmt.Sprintf("(= (%s_get %s %d) (select %s %d))", s, n, i, smt, i))
		}
	} else {
		g.emit(fmt.Sprintf("(assert (forall ((i!a Int)) (! (=> (and (<= 0 i!a) (< i!a %d)) (= (%s_get %s i!a) (select %s i!a))) :pattern ((%s_get %s i!a)))))", a.Len(), s, n, smt, s, n))
	}
	return n
}

// arrToSMT: an SMT array whose first N cells equal the array value.
func (g *fgen) arrToSMT(a *types.Array, v string) string {
	s := g.arraySort(a)
	n := g.fresh("arrs", "(Array Int "+g.sortOf(a.Elem())+")")
	if a.Len() <= 32 {
		for i := int64(0); i < a.Len(); i++ {
			g.fact("true", fmt.Sprintf("(= (select %s %d) (%s_get %s %d))", n, i, s, v, i))
		}
	} else {
		g.emit(fmt.Sprintf("(assert (forall ((i!a Int)) (! (=> (and (<= 0 i!a) (< i!a %d)) (= (select %s i!a) (%s_get %s i!a))) :pattern ((select %s i!a)))))", a.Len(), n, s, v, n))
	}
	return n
}

// wf returns well-formedness facts for a term of type t (ranges, slice shape, refs allocated).
func (g *fgen) wf(t string, typ types.Type, alloc string, depth int) string {
	if typ == tMathInt || typ == tRef {
		return "true"
	}
	switch u := typ.Underlying().(type) {
	case *types.Basic:
		if ii, ok := intInfoOf(typ); ok {
			return fmt.Sprintf("(and (<= %s %s) (<= %s %s))", ii.min(), t, t, ii.max())
		}
		return "true"
	case *types.Pointer, *types.Map, *types.Chan, *types.Signature:
		if alloc == "" {
			return fmt.Sprintf("(<= 0 %s)", t)
		}
		return fmt.Sprintf("(and (<= 0 %s) (<= %s %s))", t, t, alloc)
	case *types.Slice:
		s := fmt.Sprintf("(and (<= 0 (s_arr %s)) (<= 0 (s_off %s)) (<= 0 (s_len %s)) (<= (s_len %s) (s_cap %s)) (<= (+ (s_off %s) (s_cap %s)) 72057594037927936) (=> (= (s_arr %s) 0) (= (s_cap %s) 0))", t, t, t, t, t, t, t, t, t)
		if alloc != "" {
			s += fmt.Sprintf(" (<= (s_arr %s) %s)", t, alloc)
		}
		return s + ")"
	case *types.Interface:
		s := fmt.Sprintf("(and (<= 0 (i_dt %s)) (=> (= (i_dt %s) 0) (= (i_pl %s) 0))", t, t, t)
		if alloc != "" {
			s += fmt.Sprintf(" (<= (i_pl %s) %s)", t, alloc)
		}
		return s + ")"
	case *types.Struct:
		if depth > 2 {
			return "true"
		}
		s := g.structSort(typ, u)
		var fs []string
		for i := 0; i < u.NumFields(); i++ {
			fs = append(fs, g.wf(fmt.Sprintf("(%s_f%d %s)", s, i, t), u.Field(i).Type(), alloc, depth+1))
		}
		return and(fs...)
	}
	return "true"
}

// ---------- heap ----------

func heapKey(root int, rootT string, path []int) string {
	p := ""
	for _, i := range path {
		p += fmt.Sprintf("_%d", i)
	}
	switch root {
	case rootField:
		return "F_" + rootT + p
	case rootElem:
		return "E_" + rootT + p
	case rootBox:
		return "B_" + rootT + p
	}
	return "G_" + rootT + p
}

func (g *fgen) heapSortFor(root int, leaf string) string {
	switch root {
	case rootField, rootBox:
		return "(Array Int " + leaf + ")"
	case rootElem:
		return "(Array Int (Array Int " + leaf + "))"
	}
	return leaf
}

func (g *fgen) read(st *state, key string) string {
	if g.readRec != nil {
		g.readRec[key] = true
	}
	if t, ok := st.heap[key]; ok {
		return t
	}
	srt, ok := g.heapSort[key]
	if !ok {
		panic("heap key without sort: " + key)
	}
	name := fmt.Sprintf("H%d_%s", st.epoch, key)
	if !g.declared[name] {
		g.declare(name, srt)
		if ei := g.epochs[st.epoch]; ei != nil {
			if ei.except != nil && ei.except(key) {
				return name
			}
			for _, p := range ei.preds {
				g.fact(p.guard, fmt.Sprintf("(= %s %s)", name, g.read(p.st, key)))
			}
		}
	}
	return name
}

func (g *fgen) newEpoch(preds []epochPred) int {
	g.nepoch++
	g.epochs[g.nepoch] = &epochInfo{preds: preds}
	return g.nepoch
}

// leafType: types that are stored as one heap cell.
func isStructVal(t types.Type) (*types.Struct, bool) {
	s, ok := t.Underlying().(*types.Struct)
	return s, ok
}

func (g *fgen) leafKey(l *loc, path []int, leafT types.Type) string {
	k := heapKey(l.root, l.rootT, path)
	if _, ok := g.heapSort[k]; !ok {
		g.heapSort[k] = g.heapSortFor(l.root, g.sortOf(leafT))
		g.noteKeyType(k, l.root, leafT)
	}
	return k
}

func (g *fgen) loadLeaf(st *state, l *loc, path []int, leafT types.Type) string {
	k := g.leafKey(l, path, leafT)
	h := g.read(st, k)
	var t string
	switch l.root {
	case rootField, rootBox:
		t = fmt.Sprintf("(select %s %s)", h, l.base)
	case rootElem:
		t = fmt.Sprintf("(select (select %s %s) %s)", h, l.base, l.idx)
	default:
		t = h
	}
	return t
}

func (g *fgen) loadAt(st *state, l *loc, path []int, t types.Type) string {
	if s, ok := isStructVal(t); ok {
		srt := g.structSort(t, s)
		if s.NumFields() == 0 {
			return "mk_" + srt
		}
		var fs []string
		for i := 0; i < s.NumFields(); i++ {
			fs = append(fs, g.loadAt(st, l, append(append([]int{}, path...), i), s.Field(i).Type()))
		}
		return "(mk_" + srt + " " + strings.Join(fs, " ") + ")"
	}
	return g.loadLeaf(st, l, path, t)
}

func (g *fgen) load(st *state, l *loc) string {
	if len(l.sub) > 0 {
		// l.typ is the element type; the container leaf holds an array value
		t := g.loadLeafRaw(st, l)
		for i, s := range l.sub {
			t = g.arrGet(l.subT[i], t, s)
		}
		return t
	}
	if a, ok := g.wholeArray(l); ok {
		// array object behind a pointer: lives in the element heap as an SMT array
		k := g.registerElemKey(a.Elem())
		return g.arrFromSMT(a, fmt.Sprintf("(select %s %s)", g.read(st, k), l.base))
	}
	return g.loadAt(st, l, l.path, l.typ)
}

// wholeArray: l denotes a whole array object in the element heap.
func (g *fgen) wholeArray(l *loc) (*types.Array, bool) {
	if l.root != rootElem || l.idx != "" || len(l.path) > 0 {
		return nil, false
	}
	a, ok := l.typ.Underlying().(*types.Array)
	if !ok {
		return nil, false
	}
	if _, isS := isStructVal(a.Elem()); isS {
		return nil, false
	}
	return a, true
}

// loadLeafRaw for sub-indexed locations: the leaf key was registered when the loc was built.
func (g *fgen) loadLeafRaw(st *state, l *loc) string {
	k := heapKey(l.root, l.rootT, l.path)
	h := g.read(st, k)
	switch l.root {
	case rootField, rootBox:
		return fmt.Sprintf("(select %s %s)", h, l.base)
	case rootElem:
		return fmt.Sprintf("(select (select %s %s) %s)", h, l.base, l.idx)
	}
	return h
}

func (g *fgen) storeLeaf(st *state, l *loc, path []int, leafT types.Type, v string) {
	k := g.leafKey(l, path, leafT)
	h := g.read(st, k)
	var nh string
	switch l.root {
	case rootField, rootBox:
		nh = fmt.Sprintf("(store %s %s %s)", h, l.base, v)
	case rootElem:
		nh = fmt.Sprintf("(store %s %s (store (select %s %s) %s %s))", h, l.base, h, l.base, l.idx, v)
	default:
		nh = v
	}
	name := g.fresh("H_"+k, g.heapSort[k])
	g.fact("true", fmt.Sprintf("(= %s %s)", name, nh))
	st.heap[k] = name
}

func (g *fgen) storeAt(st *state, l *loc, path []int, t types.Type, v string) {
	if s, ok := isStructVal(t); ok {
		srt := g.structSort(t, s)
		for i := 0; i < s.NumFields(); i++ {
			g.storeAt(st, l, append(append([]int{}, path...), i), s.Field(i).Type(), fmt.Sprintf("(%s_f%d %s)", srt, i, v))
		}
		return
	}
	g.storeLeaf(st, l, path, t, v)
}

func (g *fgen) store(st *state, l *loc, v string) {
	if len(l.sub) > 0 {
		cur := g.loadLeafRaw(st, l)
		// build nested store
		var build func(arr string, subs []string, ts []*types.Array) string
		build = func(arr string, subs []string, ts []*types.Array) string {
			if len(subs) == 1 {
				return g.arrSet(ts[0], arr, subs[0], v)
			}
			return g.arrSet(ts[0], arr, subs[0], build(g.arrGet(ts[0], arr, subs[0]), subs[1:], ts[1:]))
		}
		nv := build(cur, l.sub, l.subT)
		k := heapKey(l.root, l.rootT, l.path)
		h := g.read(st, k)
		var nh string
		switch l.root {
		case rootField, rootBox:
			nh = fmt.Sprintf("(store %s %s %s)", h, l.base, nv)
		case rootElem:
			nh = fmt.Sprintf("(store %s %s (store (select %s %s) %s %s))", h, l.base, h, l.base, l.idx, nv)
		default:
			nh = nv
		}
		name := g.fresh("H_"+k, g.heapSort[k])
		g.fact("true", fmt.Sprintf("(= %s %s)", name, nh))
		st.heap[k] = name
		return
	}
	if a, ok := g.wholeArray(l); ok {
		k := g.registerElemKey(a.Elem())
		h := g.read(st, k)
		name := g.fresh("H_"+k, g.heapSort[k])
		g.fact("true", fmt.Sprintf("(= %s (store %s %s %s))", name, h, l.base, g.arrToSMT(a, v)))
		st.heap[k] = name
		return
	}
	g.storeAt(st, l, l.path, l.typ, v)
}

// leafKeysOf enumerates the heap keys under a location of type t.
func (g *fgen) leafKeysOf(l *loc, path []int, t types.Type, out *[]string) {
	if s, ok := isStructVal(t); ok {
		for i := 0; i < s.NumFields(); i++ {
			g.leafKeysOf(l, append(append([]int{}, path...), i), s.Field(i).Type(), out)
		}
		return
	}
	*out = append(*out, g.leafKey(l, path, t))
}

func (g *fgen) havocKey(st *state, key string) {
	srt, ok := g.heapSort[key]
	if !ok {
		return
	}
	st.heap[key] = g.fresh("H_"+key, srt)
}

// havocKeyAbove havocs key only at refs above the allocation watermark.
func (g *fgen) havocKeyFresh(st *state, key, oldAlloc string) {
	srt, ok := g.heapSort[key]
	if !ok {
		return
	}
	old := g.read(st, key)
	n := g.fresh("H_"+key, srt)
	if strings.HasPrefix(key, "G_") {
		g.fact("true", fmt.Sprintf("(= %s %s)", n, old))
	} else {
		g.emit(fmt.Sprintf("(assert (forall ((r!q Int)) (! (=> (<= r!q %s) (= (select %s r!q) (select %s r!q))) :pattern ((select %s r!q)))))", oldAlloc, n, old, n))
	}
	st.heap[key] = n
}

// fullHavoc records a point where the whole heap was havocked (a call with an unbounded
// frame): guard is the path condition, cond the callee's conditional-frame condition
// ("false" if it has none), except the keys its conditional frame lets change.
type fullHavoc struct {
	guard  string
	cond   string
	except map[string]bool
	who    string
}

func (g *fgen) havocAll(st *state) {
	g.fullHavocs = append(g.fullHavocs, &fullHavoc{guard: g.curGuard, cond: "false"})
	st.heap = map[string]string{}
	st.epoch = g.newEpoch(nil)
	na := g.fresh("alloc", "Int")
	g.fact("true", fmt.Sprintf("(>= %s %s)", na, st.alloc))
	st.alloc = na
}

// interiorPtr: the pointer value &obj.f (or &arr[i]) as a term.
func (g *fgen) interiorPtr(l *loc) string {
	if len(l.sub) > 0 || l.root == rootGlobal {
		return g.fresh("iptr", "Int")
	}
	k := heapKey(l.root, l.rootT, l.path)
	switch l.root {
	case rootField, rootBox:
		fn := "iptr_" + k
		if !g.declared[fn] {
			g.declared[fn] = true
			g.emit(fmt.Sprintf("(declare-fun %s (Int) Int)", fn))
		}
		return fmt.Sprintf("(%s %s)", fn, l.base)
	case rootElem:
		if l.idx == "" {
			return l.base
		}
		fn := "eptr_" + k
		if !g.declared[fn] {
			g.declared[fn] = true
			g.emit(fmt.Sprintf("(declare-fun %s (Int Int) Int)", fn))
		}
		return fmt.Sprintf("(%s %s %s)", fn, l.base, l.idx)
	}
	return g.fresh("iptr", "Int")
}

// havocHeap havocs every real heap cell but keeps the ghost variables.
func (g *fgen) havocHeap(st *state) {
	keep := map[string]string{}
	for _, name := range sortedKeys(g.w.cs.ghosts) {
		k, _ := g.ghostKey(name)
		keep[k] = g.read(st, k)
	}
	g.havocAll(st)
	for k, v := range keep {
		st.heap[k] = v
	}
}

func (g *fgen) allocRef(st *state) string {
	r := g.fresh("ref", "Int")
	g.fact("true", fmt.Sprintf("(> %s %s)", r, st.alloc))
	st.alloc = r
	if g.freshRefs == nil {
		g.freshRefs = map[string]bool{}
	}
	g.freshRefs[r] = true
	return r
}

// ---------- type ids ----------

func (w *world) typeID(t types.Type) int {
	k := types.TypeString(t, func(p *types.Package) string { return p.Path() })
	if id, ok := w.typeIDs[k]; ok {
		return id
	}
	id := len(w.typeIDs) + 1
	w.typeIDs[k] = id
	w.typeOf[id] = t
	return id
}

func isRefSort(t types.Type) bool {
	switch t.Underlying().(type) {
	case *types.Pointer, *types.Map, *types.Chan, *types.Signature:
		return true
	}
	if b, ok := t.Underlying().(*types.Basic); ok && b.Kind() == types.UnsafePointer {
		return true
	}
	return false
}

func (g *fgen) unboxFn(t types.Type) string {
	s := g.sortOf(t)
	name := "unbox_" + mangle(s)
	if !g.declared[name] {
		g.declared[name] = true
		g.emit(fmt.Sprintf("(declare-fun %s (Int) %s)", name, s))
	}
	return name
}

func (g *fgen) makeIface(st *state, guard string, v val) string {
	if _, ok := v.typ.Underlying().(*types.Interface); ok {
		return v.t
	}
	if b, ok := v.typ.(*types.Basic); ok && b.Kind() == types.UntypedNil {
		return "(mk_iface 0 0)"
	}
	id := g.w.typeID(v.typ)
	if isRefSort(v.typ) {
		return fmt.Sprintf("(mk_iface %d %s)", id, v.t)
	}
	pl := g.fresh("box", "Int")
	g.fact("true", fmt.Sprintf("(and (< 0 %s) (= (%s %s) %s))", pl, g.unboxFn(v.typ), pl, v.t))
	return fmt.Sprintf("(mk_iface %d %s)", id, pl)
}

func (g *fgen) fromIface(x string, t types.Type) string {
	if isRefSort(t) {
		return fmt.Sprintf("(i_pl %s)", x)
	}
	return fmt.Sprintf("(%s (i_pl %s))", g.unboxFn(t), x)
}

// typeTest returns the SMT condition "dynamic type of x is/implements t".
func (g *fgen) typeTest(x string, t types.Type) string {
	if it, ok := t.Underlying().(*types.Interface); ok {
		if it.NumMethods() == 0 {
			return fmt.Sprintf("(not (= (i_dt %s) 0))", x)
		}
		id := g.w.typeID(t)
		// known concrete types
		var facts []string
		for k, cid := range g.w.typeIDs {
			_ = k
			ct := g.w.typeOf[cid]
			if _, isI := ct.Underlying().(*types.Interface); isI {
				continue
			}
			fk := fmt.Sprintf("impl:%d:%d", cid, id)
			if g.declared[fk] {
				continue
			}
			g.declared[fk] = true
			if types.Implements(ct, it) {
				facts = append(facts, fmt.Sprintf("(implements %d %d)", cid, id))
			} else {
				facts = append(facts, fmt.Sprintf("(not (implements %d %d))", cid, id))
			}
		}
		sort.Strings(facts)
		for _, f := range facts {
			g.fact("true", f)
		}
		return fmt.Sprintf("(and (not (= (i_dt %s) 0)) (implements (i_dt %s) %d))", x, x, id)
	}
	return fmt.Sprintf("(= (i_dt %s) %d)", x, g.w.typeID(t))
}

// ---------- values ----------

func (g *fgen) constVal(c *ssa.Const) val {
	t := c.Type()
	srt := g.sortOf(t)
	if c.Value == nil {
		return val{g.zero(t), t, srt}
	}
	switch u := t.Underlying().(type) {
	case *types.Basic:
		switch {
		case u.Info()&types.IsBoolean != 0:
			if constant.BoolVal(c.Value) {
				return val{"true", t, srt}
			}
			return val{"false", t, srt}
		case u.Info()&types.IsString != 0:
			return val{smtString(constant.StringVal(c.Value)), t, srt}
		case u.Info()&types.IsInteger != 0:
			if bi, ok := constInt(c.Value); ok {
				return val{smtInt(bi), t, srt}
			}
		case u.Info()&types.IsFloat != 0:
			f, _ := constant.Float64Val(c.Value)
			if u.Kind() == types.Float32 {
				return val{smtFloat32(float32(f)), t, srt}
			}
			return val{smtFloat64(f), t, srt}
		}
	}
	g.unsupported("constant %s", c)
	return val{g.zero(t), t, srt}
}

func (g *fgen) get(v ssa.Value) val {
	switch x := v.(type) {
	case *ssa.Const:
		return g.constVal(x)
	case *ssa.Function:
		return val{fmt.Sprintf("%d", 1000000+g.w.typeID(types.NewPointer(x.Signature))), x.Type(), "Int"} // opaque distinct id
	case *ssa.Builtin:
		return val{"0", x.Type(), "Int"}
	case *ssa.Global:
		// address of a global used as a value: opaque
		if vv, ok := g.vals[v]; ok {
			return vv
		}
		n := g.fresh("gaddr", "Int")
		g.fact("true", fmt.Sprintf("(< 0 %s)", n))
		vv := val{n, v.Type(), "Int"}
		g.vals[v] = vv
		return vv
	}
	if vv, ok := g.vals[v]; ok {
		return vv
	}
	if l, ok := g.locs[v]; ok {
		// interior pointer escaping as a value: a deterministic function of the
		// enclosing object (so &x.mu denotes the same pointer at Lock and Unlock)
		n := g.interiorPtr(l)
		g.fact("true", fmt.Sprintf("(< 0 %s)", n))
		vv := val{n, v.Type(), "Int"}
		g.vals[v] = vv
		g.assum["interior pointer used as a value in "+g.key+" (aliasing through it is not tracked)"] = true
		return vv
	}
	g.unsupported("value %s (%T) used before definition", v.Name(), v)
	return val{g.zero(v.Type()), v.Type(), g.sortOf(v.Type())}
}

func (g *fgen) define(v ssa.Value, term string) val {
	srt := g.sortOf(v.Type())
	name := "v_" + v.Name()
	if g.declared[name] {
		name = g.fresh("v_"+v.Name(), srt)
	} else {
		g.declare(name, srt)
	}
	g.fact("true", fmt.Sprintf("(= %s %s)", name, term))
	vv := val{name, v.Type(), srt}
	g.vals[v] = vv
	return vv
}

func (g *fgen) defineUnknown(v ssa.Value, st *state) val {
	srt := g.sortOf(v.Type())
	name := "v_" + v.Name()
	if g.declared[name] {
		name = g.fresh("v_"+v.Name(), srt)
	} else {
		g.declare(name, srt)
	}
	g.fact("true", g.wf(name, v.Type(), st.alloc, 0))
	vv := val{name, v.Type(), srt}
	g.vals[v] = vv
	return vv
}

// ---------- obligations ----------

func (g *fgen) oblige(kind, label, goal string, pos token.Pos) {
	if goal == "true" {
		// trivially true: still count it, discharged without solver
	}
	var extra []string
	if strings.HasPrefix(goal, "(forall ((") || strings.HasPrefix(goal, "(=> ") {
		// skolem constants and the instances at them are private to this obligation
		n := len(g.lines)
		goal = g.skolemizeGoal(goal)
		extra = append(extra, g.lines[n:]...)
		for _, l := range g.lines[n:] {
			delete(g.factSeen, l)
		}
		g.lines = g.lines[:n]
	}
	extra = append(extra, g.goalTermInstances(goal)...)
	base := fmt.Sprintf("%s.%s#%s", shortPkg(g.pkgPath), g.key, kind)
	if label != "" {
		base += ":" + label
	}
	g.oblSeq[base]++
	name := base
	if n := g.oblSeq[base]; n > 1 {
		name = fmt.Sprintf("%s~%d", base, n)
	}
	o := &obligation{name: name, fn: shortPkg(g.pkgPath) + "." + g.key, kind: kind, goal: goal, guard: g.curGuard, nlines: len(g.lines), gen: g, extra: extra}
	if pos.IsValid() {
		p := g.w.fset.Position(pos)
		o.pos = fmt.Sprintf("%s:%d", strings.TrimPrefix(p.Filename, repoDir+"/"), p.Line)
	}
	g.obls = append(g.obls, o)
}

func shortPkg(p string) string {
	if p == modPath {
		return "zed"
	}
	if i := strings.LastIndex(p, "/"); i >= 0 {
		return p[i+1:]
	}
	return p
}

func (o *obligation) script() string {
	var sb strings.Builder
	sb.WriteString(prelude)
	for _, l := range o.gen.lines[:o.nlines] {
		sb.WriteString(l)
		sb.WriteByte('\n')
	}
	for _, l := range o.extra {
		sb.WriteString(l)
		sb.WriteByte('\n')
	}
	if o.expect == "sat" {
		sb.WriteString("(assert " + o.guard + ")\n")
		if o.goal != "" && o.goal != "true" {
			sb.WriteString("(assert " + o.goal + ")\n")
		}
	} else {
		sb.WriteString("(assert " + o.guard + ")\n")
		sb.WriteString("(assert (not " + o.goal + "))\n")
	}
	sb.WriteString("(check-sat)\n")
	return sb.String()
}
